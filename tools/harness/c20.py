"""C20 correspondence: ARM / RISC-V build attributes and ARM EHABI unwind tables.

impl  = the real library: ELFFile over a synthesized minimal ELF image ->
        get_section_by_name('.ARM.attributes' / '.riscv.attributes') -> iter_subsections ->
        iter_subsubsections -> iter_attributes;  ELFFile.get_ehabi_infos() -> EHABIInfo.get_entry ->
        fields + mnmemonic_array();  EHABIBytecodeDecoder;  arm_expand_prel31.
model = extracted Model/C20Attr.v, Model/C20Ehabi.v;  spec = extracted Spec/C20Attr.v, Spec/C20Ehabi.v
        (the section / table bytes are produced by the Coq encoders; the harness only places them
        in an image at chosen offsets between non-zero filler).
histories (kinds attr_hist, eh_hist): ONE section object / ONE EHABIInfo object and the objects it hands
        out are put through a sequence of calls (walks started, advanced, abandoned, limited, nested;
        num_* / list properties / fresh walks in between; get_entry / num_entry in any order, decoder
        objects reused); every answer is compared with Model/C20Hist.v (what the objects keep between
        calls) and with Spec/C20Hist.v (the stateless reference)."""
import gc, io, itertools, struct
from tools.lib.framework import impl_call
from tools.lib.streams import Streams, draw_kind

CLAIMED = True
CONFIG = {'assumptions': ['attribute strings are compared as UTF-8 bytes; generated strings are valid UTF-8',
                          'the ELF container around the section is assembled by the harness (ELF32/ELF64, both byte orders)',
                          'sh_flags of the generated sections never carries SHF_COMPRESSED (compressed sections: property C02)',
                          'mnemonic notation is that of llvm-readobj ARMEHABIPrinter, the reference named in ehabi/decoder.py',
                          'register-range masks are 32 bits wide as in the reference printer',
                          'eh_table_offset is left open for table-based Su16 and generic entries (docstring is ambiguous there)']}
LEVEL = {'text': 'Machine-checked theorems: round trip of the build-attributes reader for ANY number of subsections, '
                 'sub-subsections and attributes (all value kinds, any valid uleb128 encoding, both byte orders, section '
                 'placed anywhere in the file); arm_expand_prel31 = sign-extended 31-bit place-relative offset mod 2^64; '
                 'get_entry classifies every index/table entry kind and unpacks the byte-code exactly; the byte-code '
                 'disassembler equals the EHABI 9.3 decision list for all instruction sequences of any length (first-byte '
                 'dispatch of the regenerated ring swept over all 256 bytes, all operand bytes, uleb128 operands of any length). '
                 'Objects under ANY history of calls (walks started / advanced / abandoned / limited / nested on one '
                 'section, subsection or sub-subsection object, num_* and list properties in between; num_entry / get_entry '
                 'in any order, decoder objects reused): every answer equals the stateless decoding (simulation proof over '
                 'fold of histories; memo fields are model state with an invariant). '
                 'Models are transliterations pinned to the code by differential correspondence on Coq-encoded inputs.',
         'design_ref': '4.20', 'technique': 'Coq proof (induction over section structure, bit arithmetic, finite sweeps by vm_compute) '
                                             '+ Gen tables from live modules + extracted-model correspondence',
         'note': 'Trusted: Coq kernel, ExtrOcamlBasic extraction, harness ELF assembly, Spec written from IHI 0045 / RISC-V psABI / IHI 0038. '
                 'No axioms. Modelled not verified: construct machinery, BytesIO.'}

RULE = ('cases: attribute sections of 1..6 vendor subsections x 0..5 file/section/symbol sub-subsections x 0..8 attributes '
        'drawn over the whole ARM and RISC-V tag tables (uleb, NTBS, compatibility, nested also-compatible-with, number lists), '
        'minimal and padded uleb128, ELF32/64, both byte orders, section at varying offsets between non-zero filler, read '
        'eagerly (.subsections/.subsubsections) and nested (generators drained inside one another); byte-mutated sections '
        '(out of domain, model vs impl only); prel31 over all sign/size classes incl. bit26!=bit30; index images with every '
        'entry kind, tables before and after the index; the section header table drawn before or after the section '
        'bodies, trailing filler of 0..n bytes, so that every table form (and the index, and the attributes section) '
        'also occurs with its last word being the last word of the file; every section header field that does not '
        'locate the bytes is drawn (sh_flags without SHF_COMPRESSED, sh_addr, sh_link, sh_info, sh_addralign, sh_entsize '
        '-- for .ARM.exidx 0, 8, 4, 16, 1, 12, 2^31, maximum, random), an .ARM.extab section header with drawn fields '
        'present or absent; the models take the decoded header; the image is handed to the library as a drawn stream kind '
        '(BytesIO, buffered file fresh / warmed / small 16-byte buffer / at EOF, mmap, gzip, in-memory with a decoy '
        'descriptor); in histories on in-memory images the objects (section, subsection, sub-subsection, EHABIInfo, its '
        'structs, the ELFFile) are also pickled / deep-copied / copied and the copy is used from then on; the caller edits '
        'what it was given in place (EHABIEntry.function_offset / bytecode_array, Attribute objects and result lists) and asks '
        'again; byte-code: every first byte x every operand byte, random instruction '
        'lists with multi-byte uleb128 operands, raw byte strings. Histories: on sections of 1..4 subsections, call '
        'sequences of 3..16 operations over the section object and every object it hands out (start a walk with or '
        'without vendor/scope/tag limit, next, close, drop, num_*, list property, complete fresh walk, unrelated seek), '
        'object references drawn by simulating the reference; templates "abandon after k items then query", "two '
        'walks interleaved", "walk nested in a walk in flight"; on exception indexes of 1..6 entries, sequences of '
        'num_entry / get_entry(n) (in and out of range) / field re-reads / mnmemonic_array / decoder objects built, '
        'decoded again and read again. distinct = hash(kind, abstract); non-trivial = >=2 '
        'subsections or sub-subsections / multi-byte uleb / large displacement / >=2 instructions / history of >=2 calls')

ARM_ULEB = [6, 7, 8, 9, 10, 11, 12, 13, 14, 15, 16, 17, 18, 19, 20, 21, 22, 23, 24, 25, 26, 27, 28, 29, 30, 31,
            34, 36, 38, 42, 44, 46, 48, 50, 52, 64, 66, 68, 70, 72, 74, 76]
ARM_NTBS = [4, 5, 67]
RISCV_ULEB = [4, 6, 8, 10, 12, 14, 16]
RISCV_NTBS = [5]
ULEB_VALUES = [0, 1, 2, 63, 64, 127, 128, 129, 255, 256, 16383, 16384, 2 ** 21 - 1, 2 ** 21, 2 ** 31, 2 ** 32 - 1,
               2 ** 32, 2 ** 35, 2 ** 63, 2 ** 64 - 1, 2 ** 64, 2 ** 70]
WORDS = ['build', 'aeabi', 'riscv', 'gnu', 'ARM v7', 'rv32i2p0_m2p0', 'Cortex-A9', '2.09', 'a', '', 'vendor',
         'été', '中文', 'x\U0001f600y', 'rv64imafdc_zicsr2p0']


# ------------------------------------------------------------------ ELF container (harness-side assembly)
def filler(n, salt):
    return bytes(((i * 37 + salt * 11 + 5) % 127) + 1 for i in range(n))   # non-zero, ASCII range


SH_FIRST_BASE = 300     # with the section header table first, section bodies start at or after this offset


DEFAULT_SHF = [0, 0, 0, 0, 1, 0]        # sh_flags sh_addr sh_link sh_info sh_addralign sh_entsize


def rand_shf(rng, cls, entsizes):
    """the section header fields that do not locate the bytes, all drawn (sh_flags never with SHF_COMPRESSED,
    which turns the section into a compressed one: property C02)"""
    n = 32 if cls == 32 else 64

    def word(bits, *typical):
        r = rng.random()
        if r < 0.5:
            return rng.choice(typical)
        if r < 0.65:
            return 2 ** bits - 1
        return rng.getrandbits(bits)
    return [word(n, 0, 2, 0x82, 6) & ~0x800, word(n, 0, 0x8000, 0x10000), word(32, 0, 1, 2, 3), word(32, 0, 1, 2),
            word(n, 0, 1, 4, 8, 3), word(n, *entsizes)]


def build_elf(le, cls, machine, secs, total):
    """secs: list of (name, sh_type, offset, size[, shf]).  Returns (img, hdrs): a bytearray filled with non-zero
    garbage, the ELF header at 0, and for each section the ten Elf_Shdr fields as written; section contents are
    patched in by the caller.
    total = n            : the image has n bytes of header + bodies + filler, then .shstrtab and the section header
                           table are APPENDED (as linkers do: something always follows the last section body);
    total = ['shfirst', n]: .shstrtab and the section header table come right after the ELF header, the bodies
                           after them, and the file has exactly n bytes -- a body that ends at n ends at EOF."""
    e = '<' if le else '>'
    ehsize, shentsize = (52, 40) if cls == 32 else (64, 64)
    sh_first = isinstance(total, list)
    if sh_first:
        total = total[1]
    img = bytearray(filler(max(total, ehsize), len(secs) + cls))
    names = b'\0'
    name_off = []
    secs = [tuple(x) + (DEFAULT_SHF,) if len(x) == 4 else tuple(x) for x in secs]
    for name, _, _, _, _ in secs:
        name_off.append(len(names))
        names += name.encode() + b'\0'
    shstr_name = len(names)
    names += b'.shstrtab\0'
    nsecs = len(secs) + 2
    if sh_first:
        shstr_off = ehsize
        shoff = ehsize + len(names) + 3
        end = shoff + nsecs * shentsize
        assert end <= SH_FIRST_BASE and all(x[2] >= end for x in secs) and len(img) >= end
        img[shstr_off:shstr_off + len(names)] = names
        table = bytearray()
    else:
        shstr_off = len(img)
        img += names
        img += filler(3, 7)
        shoff = len(img)
        table = img
    hdrs = [[no, t, f[0], f[1], off, sz, f[2], f[3], f[4], f[5]] for no, (_, t, off, sz, f) in zip(name_off, secs)]
    allsecs = [[0] * 10] + hdrs + [[shstr_name, 3, 0, 0, shstr_off, len(names), 0, 0, 1, 0]]
    for h in allsecs:
        table += struct.pack(e + ('10I' if cls == 32 else 'IIQQQQIIQQ'), *h)
    if sh_first:
        img[shoff:shoff + len(table)] = table
    ident = b'\x7fELF' + bytes([1 if cls == 32 else 2, 1 if le else 2, 1, 0]) + b'\0' * 8
    if cls == 32:
        hdr = ident + struct.pack(e + 'HHIIIIIHHHHHH', 2, machine, 1, 0, 0, shoff, 0, ehsize, 32, 0, shentsize,
                                  len(allsecs), len(allsecs) - 1)
    else:
        hdr = ident + struct.pack(e + 'HHIQQQIHHHHHH', 2, machine, 1, 0, 0, shoff, 0, ehsize, 56, 0, shentsize,
                                  len(allsecs), len(allsecs) - 1)
    img[:len(hdr)] = hdr
    return img, hdrs


def placement_of(x):
    """(build_elf's total, shf of the main section, extab section or None) of a placement descriptor:
    n | ['shfirst', n] | ['after' / 'shfirst', n, shf, extab, stream kind]"""
    if not isinstance(x, list):
        return x, DEFAULT_SHF, None
    total = ['shfirst', x[1]] if x[0] == 'shfirst' else x[1]
    return total, (x[2] if len(x) > 2 else DEFAULT_SHF), (x[3] if len(x) > 3 else None)


def stream_kind_of(x):
    """the kind of stream (tools/lib/streams.py) the image is handed to the library as"""
    return x[4] if isinstance(x, list) and len(x) > 4 else 'bytesio'


def copy_how(how):
    import copy, pickle
    if how == 'pickle':
        return lambda o: pickle.loads(pickle.dumps(o))
    if how == 'pickle2':
        return lambda o: pickle.loads(pickle.dumps(o, 2))
    return copy.deepcopy if how == 'deepcopy' else copy.copy


COPY_HOW = ['pickle', 'pickle', 'pickle2', 'deepcopy', 'deepcopy', 'copy']
EXIDX_ENTSIZES = [0, 8, 4, 16, 1, 12, 2 ** 31]
ATTR_ENTSIZES = [0, 1, 4, 8, 5]


def rand_placement(rng):
    """where the section header table goes and how much filler follows the last body:
    'after' (linker style), 'first' with filler behind the bodies, 'eof' = first and NOTHING after the last body"""
    r = rng.random()
    return 'eof' if r < 0.25 else 'first' if r < 0.35 else 'after'


# ------------------------------------------------------------------ generators
def rand_uleb(rng):
    r = rng.random()
    if r < 0.45:
        return rng.randrange(0, 8)
    if r < 0.75:
        return rng.choice(ULEB_VALUES)
    return rng.getrandbits(rng.choice([7, 8, 14, 15, 28, 32, 40, 64, 70]))


def rand_pad(rng):
    return rng.choice([0, 0, 0, 0, 1, 2, 4])


def rand_str(rng, ascii_only=False):
    r = rng.random()
    if ascii_only:
        return ''.join(chr(rng.randint(33, 126)) for _ in range(rng.randint(0, 12))).encode()
    if r < 0.6:
        s = rng.choice(WORDS)
    elif r < 0.9:
        s = ''.join(chr(rng.randint(32, 126)) for _ in range(rng.randint(0, 40)))
    else:
        s = ''.join(rng.choice(['a', 'ß', '€', '\U00010348', 'Z', '7']) for _ in range(rng.randint(1, 12)))
    return s.encode('utf-8')


def rand_attr(rng, fl, ascii_only=False):
    rand_str = lambda r: globals()['rand_str'](r, ascii_only)
    ulebs, ntbs = (ARM_ULEB, ARM_NTBS) if fl == 'arm' else (RISCV_ULEB, RISCV_NTBS)
    r = rng.random()
    if fl == 'arm' and r < 0.10:
        return ['c', 32, rand_pad(rng), rand_uleb(rng), rand_pad(rng), rand_str(rng)]
    if fl == 'arm' and r < 0.20:
        if rng.random() < 0.6:
            return ['nu', 65, rand_pad(rng), rng.choice(ulebs), rand_pad(rng), rand_uleb(rng), rand_pad(rng)]
        return ['nn', 65, rand_pad(rng), rng.choice(ntbs), rand_pad(rng), rand_str(rng)]
    if r < 0.40:
        return ['n', rng.choice(ntbs), rand_pad(rng), rand_str(rng)]
    return ['u', rng.choice(ulebs), rand_pad(rng), rand_uleb(rng), rand_pad(rng)]


def rand_ssub(rng, fl, nattr, ascii_only=False):
    scope = rng.choice([1, 1, 2, 3])
    nums = []
    if scope != 1:
        nums = [[max(1, rand_uleb(rng)), rand_pad(rng)] for _ in range(rng.choice([0, 1, 1, 2, 3, 6]))]
    return [scope, rand_pad(rng), nums, rand_pad(rng), [rand_attr(rng, fl, ascii_only) for _ in range(nattr)]]


def rand_section(rng, fl, nsub, nss_choices, nattr_choices, ascii_only=False):
    sec = []
    for _ in range(nsub):
        nss = rng.choice(nss_choices)
        sec.append([rand_str(rng, ascii_only), [rand_ssub(rng, fl, rng.choice(nattr_choices), ascii_only) for _ in range(nss)]])
    return sec


# byte-code
SH2 = set(range(0x80, 0x90)) | {0xb1, 0xb3, 0xc6, 0xc7, 0xc8, 0xc9}
SH1 = [b for b in range(256) if b not in SH2 and b != 0xb2]


def rand_insn(rng, room=None):
    """one abstract instruction occupying at most [room] bytes"""
    r = rng.random()
    if (room is None or room >= 2) and r < 0.30:
        return ['i2', rng.choice(sorted(SH2)), rng.choice([0, 1, 0x0f, 0x10, 0xf0, 0xff, rng.randrange(256), rng.randrange(256)])]
    if (room is None or room >= 2) and r < 0.50:
        if room is None:
            return ['iu', rand_uleb(rng), rand_pad(rng)]
        v = rng.randrange(0, 128 ** min(room - 1, 4))
        n = max(1, (v.bit_length() + 6) // 7)
        return ['iu', v, rng.randint(0, room - 1 - n) if rng.random() < 0.3 else 0]
    return ['i1', rng.choice(SH1)]


def insn_len(i):
    if i[0] == 'i1':
        return 1
    if i[0] == 'i2':
        return 2
    return 1 + max(1, (i[1].bit_length() + 6) // 7) + i[2]


def insn_bytes_py(i):
    """bytes of an instruction; only used to fill fixed-size table entries exactly (the
    Coq encoder remains the reference: the harness checks both agree)."""
    if i[0] == 'i1':
        return bytes([i[1]])
    if i[0] == 'i2':
        return bytes([i[1], i[2]])
    v, pad = i[1], i[2]
    out = []
    while True:
        b = v & 0x7f
        v >>= 7
        if v or pad:
            out.append(b | 0x80)
        else:
            out.append(b)
        if not v:
            break
    if pad:
        out += [0x80] * (pad - 1) + [0x00]
    return bytes([0xb2] + out)


def rand_bytecode(rng, n):
    """exactly n bytes of complete instructions (as an assembler would emit, padded with finish)"""
    out = b''
    while len(out) < n:
        room = n - len(out)
        if rng.random() < 0.15:
            out += b'\xb0' * room
            break
        i = rand_insn(rng, room)
        if insn_len(i) > room:
            continue
        out += insn_bytes_py(i)
    return out


DISP = [0, 1, -1, 4, -4, 8, -8, 0x100, -0x100, 0x7fff, -0x8000, 0x03ffffff, 0x04000000, 0x04000001, -0x04000000,
        -0x04000001, 0x07ffffff, 0x08000000, -0x08000000, 0x3fffffff, -0x40000000, 0x20000000, -0x20000000,
        0x3bffffff, -0x3c000000, 0x0400abcd, -0x0400abcd]


def rand_disp(rng):
    r = rng.random()
    if r < 0.5:
        return rng.choice(DISP)
    if r < 0.75:
        return rng.randrange(-2 ** 30, 2 ** 30)
    return rng.randrange(-4096, 4096)


def bit26_ne_bit30(w):
    return ((w >> 26) & 1) != ((w >> 30) & 1)


def rand_entry(rng, kind):
    """abstract entry without its table offset (filled in by the layout); returns (abs, table_size)"""
    fd = rand_disp(rng)
    if kind == 'cant':
        return ['cant', fd], 0
    if kind == 'inline':
        return ['inline', fd] + list(rand_bytecode(rng, 3)), 0
    if kind == 't0':
        return ['t0', fd, None] + list(rand_bytecode(rng, 3)), 4
    if kind == 't12':
        n = rng.choice([0, 1, 1, 2, 3, 7])
        bc = rand_bytecode(rng, 2 + 4 * n)
        quads = [list(bc[2 + 4 * k: 6 + 4 * k]) for k in range(n)]
        return ['t12', fd, None, rng.choice([1, 2]), bc[0], bc[1], quads], 4 + 4 * n
    if kind == 'gen':
        return ['gen', fd, None, rand_disp(rng)], 4
    if kind == 'cidx':
        return ['cidx', 0x80000000 | rng.getrandbits(31), rng.choice([1, rng.getrandbits(32), 0x80b0b0b0])], 0
    if kind == 'cinl':
        return ['cinl', fd, 0x80000000 | (rng.randrange(1, 128) << 24) | rng.getrandbits(24)], 0
    if kind == 'ctab':
        return ['ctab', fd, None, 0x80000000 | (rng.randrange(1, 8) << 28) | rng.getrandbits(28)], 4
    if kind == 'cmod':
        return ['cmod', fd, None, rng.randrange(3, 16), rng.getrandbits(24)], 4
    raise ValueError(kind)


EH_KINDS = ['cant', 'inline', 't0', 't12', 'gen', 'cidx', 'cinl', 'ctab', 'cmod']


def rand_eh_image(rng, kinds, placement=None, skind=None):
    """[le, exidx_off, entries(with table offsets), total] : tables are laid out before and after the index;
    total as build_elf takes it.  placement 'eof': the last table entry (or, without tables, the index) ends
    with the last byte of the file."""
    placement = placement or rand_placement(rng)
    le = rng.random() < 0.6
    ents = [rand_entry(rng, k) for k in kinds]
    tabled = [i for i, (a, sz) in enumerate(ents) if sz]
    keep_after = rng.choice(tabled) if tabled and placement == 'eof' else None
    before = [i for i in tabled if i != keep_after and rng.random() < 0.5]
    pos = (52 if placement == 'after' else SH_FIRST_BASE) + rng.randint(0, 9)
    for i in before:
        pos += rng.choice([0, 0, 3, 4, 5])      # table entries need not be aligned for the reader
        ents[i][0][2] = pos
        pos += ents[i][1] + rng.choice([0, 4, 6])
    pos += rng.randint(0, 7)
    exidx_off = pos
    after = [i for i in tabled if i not in before]
    rng.shuffle(after)                          # any of them may be the last thing in the file
    pos += 8 * len(ents) + (rng.choice([0, 1, 4, 8]) if after or placement != 'eof' else 0)
    for k, i in enumerate(after):
        pos += rng.choice([0, 0, 2, 4])
        ents[i][0][2] = pos
        pos += ents[i][1] + (0 if placement == 'eof' and k == len(after) - 1 else rng.choice([0, 4]))
    total = pos + (0 if placement == 'eof' else rng.randint(0, 12))
    # a section header for .ARM.extab when the tables form one run behind the index (as linkers lay them out);
    # nothing reads it, whatever it says
    extab = None
    if after and not before and rng.random() < 0.6:
        start = min(ents[i][0][2] for i in after)
        extab = [start, max(ents[i][0][2] + ents[i][1] for i in after) - start, rand_shf(rng, 32, [0, 4, 8])]
    return [le, exidx_off, [a for a, _ in ents],
            ['after' if placement == 'after' else 'shfirst', total, rand_shf(rng, 32, EXIDX_ENTSIZES), extab,
             skind or draw_kind(rng, 0.7)]]


# ------------------------------------------------------------------ histories
SCOPE_NAME = {1: b'TAG_FILE', 2: b'TAG_SECTION', 3: b'TAG_SYMBOL'}
ATTR_FILTERS = {'arm': [b'TAG_CPU_ARCH', b'TAG_CPU_NAME', b'TAG_ABI_VFP_ARGS', b'TAG_COMPATIBILITY',
                        b'TAG_ALSO_COMPATIBLE_WITH', b'TAG_CONFORMANCE', b'TAG_FILE'],
                'riscv': [b'TAG_ARCH', b'TAG_STACK_ALIGN', b'TAG_UNALIGNED_ACCESS', b'TAG_PRIV_SPEC', b'TAG_FILE']}


class AttrHistSim:
    """Bookkeeping of the REFERENCE (Spec/C20Hist.v) as far as it is needed to draw object and generator
    numbers that exist: which objects a call registers.  Answers are never taken from here."""
    def __init__(self, fl, sec):
        self.fl, self.sec = fl, sec
        self.objs = [('sec',)]
        self.gens = []           # [owner, filter, pos, done, dropped]

    def level(self, o):
        return {'sec': 0, 'subsec': 1, 'subsub': 2}[self.objs[o][0]]

    def items(self, owner):
        """(child object or None, key) of every item of a complete walk"""
        if owner[0] == 'sec':
            return [(('subsec', i), s[0]) for i, s in enumerate(self.sec)]
        if owner[0] == 'subsec':
            i = owner[1]
            return [(('subsub', i, j), SCOPE_NAME[ss[0]]) for j, ss in enumerate(self.sec[i][1])]
        return [(None, None) for _ in self.sec[owner[1]][1][owner[2]][4]]     # attributes: no objects, key not needed

    def apply(self, op):
        k = op[0]
        if k == 'start':
            self.gens.append([self.objs[op[1]], op[2], 0, False, False])
        elif k == 'next':
            g = self.gens[op[1]]
            if not g[3]:
                its = self.items(g[0])
                p = g[2]
                while p < len(its) and not (g[1] is None or its[p][1] == g[1] or its[p][1] is None):
                    p += 1
                if p < len(its):
                    g[2] = p + 1
                    if its[p][0] is not None:
                        self.objs.append(its[p][0])
                else:
                    g[3] = True
        elif k in ('close', 'drop'):
            self.gens[op[1]][3] = True
            if k == 'drop':
                self.gens[op[1]][4] = True
        elif k in ('list', 'iter'):
            f = op[2] if k == 'iter' else None
            for child, key in self.items(self.objs[op[1]]):
                if child is not None and (f is None or key == f):
                    self.objs.append(child)

    def pick_obj(self, rng):
        n = len(self.objs)
        r = rng.random()
        if r < 0.25:
            return 0
        if r < 0.6:
            return rng.randrange(max(0, n - 3), n)
        return rng.randrange(n)

    def pick_filter(self, rng, o):
        if rng.random() < 0.55:
            return None
        lvl = self.level(o)
        if lvl == 0:
            if self.sec and rng.random() < 0.85:
                return rng.choice(self.sec)[0]
            return b'no such vendor'
        if lvl == 1:
            return rng.choice(list(SCOPE_NAME.values()))
        return rng.choice(ATTR_FILTERS[self.fl])

    def live_gens(self):
        return [i for i, g in enumerate(self.gens) if not g[4]]


DISTURB = [0, 1, 17, 52, 64, 100, 1000, 2 ** 20]


def rand_attr_hist(rng, fl, sec, n, copies=False):
    """copies: the objects may be pickled / deep-copied / copied and the copy used from then on (only offered
    when the file is an in-memory stream: a real file object does not pickle)"""
    sim = AttrHistSim(fl, sec)
    hist = []

    def emit(op):
        hist.append(op)
        sim.apply(op)

    def query(o):
        if copies and rng.random() < 0.25:
            emit(['copy', o, rng.choice(COPY_HOW)])
        r = rng.random()
        if r < 0.4:
            emit(['num', o])
        elif r < 0.7:
            emit(['list', o])
        else:
            emit(['iter', o, sim.pick_filter(rng, o)])
    t = rng.random()
    if t < 0.30:
        # a walk abandoned after k items (closed, dropped, or just left suspended), then the object is asked again
        o = sim.pick_obj(rng)
        emit(['start', o, sim.pick_filter(rng, o)])
        g = len(sim.gens) - 1
        for _ in range(rng.choice([0, 1, 1, 1, 2, 3])):
            emit(['next', g])
        r = rng.random()
        if r < 0.35:
            emit(['close', g])
        elif r < 0.7:
            emit(['drop', g])
        query(o)
        if rng.random() < 0.5:
            query(o)
    elif t < 0.45:
        # two walks over the same object advanced alternately
        o = sim.pick_obj(rng)
        emit(['start', o, sim.pick_filter(rng, o)])
        emit(['start', o, sim.pick_filter(rng, o)])
        g = len(sim.gens) - 2
        for _ in range(rng.randint(2, 6)):
            emit(['next', g + rng.randint(0, 1)])
        query(o)
    elif t < 0.60:
        # a walk over an object yielded by a walk that is still in flight, questions to the outer object in between
        emit(['start', 0, sim.pick_filter(rng, 0)])
        emit(['next', 0])
        if len(sim.objs) > 1:
            inner = len(sim.objs) - 1
            emit(['start', inner, sim.pick_filter(rng, inner)])
            emit(['next', 1])
            query(0)
            emit(['next', 1])
            emit(['next', 0])
            query(inner)
    elif t < 0.80:
        # a walk over the attributes of a sub-subsection in flight while other objects are asked
        emit(['list', 0])
        subsecs = [k for k, o in enumerate(sim.objs) if o[0] == 'subsec' and sim.sec[o[1]][1]]
        if subsecs:
            emit(['list', rng.choice(subsecs)])
            subsubs = [k for k, o in enumerate(sim.objs) if o[0] == 'subsub']
            rich = [k for k in subsubs if len(sim.sec[sim.objs[k][1]][1][sim.objs[k][2]][4]) >= 2]
            o = rng.choice(rich or subsubs)
            emit(['start', o, sim.pick_filter(rng, o) if rng.random() < 0.3 else None])
            g = len(sim.gens) - 1
            emit(['next', g])
            for _ in range(rng.choice([1, 1, 2])):
                r = rng.random()
                if r < 0.35:
                    query(sim.pick_obj(rng))
                elif r < 0.6:
                    emit(['start', o, None])
                    emit(['next', len(sim.gens) - 1])
                elif r < 0.8:
                    other = rng.choice(subsubs)
                    emit(['start', other, None])
                    emit(['next', len(sim.gens) - 1])
                else:
                    emit(['disturb', rng.choice(DISTURB)])
            emit(['next', g])
            emit(['next', g])
            if rng.random() < 0.5:
                query(o)
    while len(hist) < n:
        r = rng.random()
        live = sim.live_gens()
        if r < 0.20 or (not live and r < 0.63):
            o = sim.pick_obj(rng)
            emit(['start', o, sim.pick_filter(rng, o)])
        elif r < 0.55:
            emit(['next', rng.choice(live[-4:]) if rng.random() < 0.7 else rng.choice(live)])
        elif r < 0.63:
            emit([rng.choice(['close', 'drop']), rng.choice(live)])
        elif r < 0.95:
            query(sim.pick_obj(rng))
        else:
            emit(['disturb', rng.choice(DISTURB)])
    return hist


HAS_BYTECODE = ('inline', 't0', 't12')


def rand_eh_hist(rng, kinds, n, copies=False):
    nent = len(kinds)
    entries, decs, hist = [], 0, []
    while len(hist) < n:
        r = rng.random()
        if rng.random() < (0.22 if copies else 0.04):
            if copies and rng.random() < 0.7:
                hist.append(['copyinfo', rng.choice(COPY_HOW), rng.choice(['info', 'info', 'structs'])])
            else:
                hist.append(['reopen', rng.choice(['same'] + (['pickle', 'deepcopy'] if copies else []))])
        elif r < 0.12:
            hist.append(['num'])
        elif r < 0.42 or not entries:
            k = rng.randrange(nent) if rng.random() < 0.9 else nent + rng.choice([0, 1, 7])
            hist.append(['get', k])
            if k < nent:
                entries.append(kinds[k])
        elif r < 0.46:
            hist.append(['mutate', rng.randrange(len(entries))])       # the caller edits what it was given ...
            if rng.random() < 0.6:                                     # ... and asks for an entry again
                k = rng.randrange(nent)
                hist.append(['get', k])
                entries.append(kinds[k])
        elif r < 0.49:
            hist.append(['fields', rng.randrange(len(entries))])
        elif r < 0.63:
            hist.append(['mnem', rng.randrange(len(entries))])
        elif r < 0.78 or not decs:
            with_bc = [i for i, k in enumerate(entries) if k in HAS_BYTECODE]
            e = rng.choice(with_bc) if with_bc and rng.random() < 0.9 else rng.randrange(len(entries))
            hist.append(['decoder', e])
            if entries[e] in HAS_BYTECODE:
                decs += 1
        else:
            hist.append([rng.choice(['redecode', 'read', 'read']), rng.randrange(decs)])
    return hist


def gen(ctx):
    rng = ctx.rng
    T = ctx.scale(1, 10)
    cases = []
    # ---------------- histories on one attributes section object and the objects it hands out
    for _ in range(500 * T):
        fl = rng.choice(['arm', 'arm', 'riscv'])
        sec = rand_section(rng, fl, rng.choice([1, 2, 2, 3, 3, 4]), [0, 1, 2, 2, 3], [0, 1, 2, 3, 5])
        cls = rng.choice([32, 32, 64])
        post = rand_post(rng, [0, 1, 5], cls)
        hist = rand_attr_hist(rng, fl, sec, rng.choice([3, 4, 6, 8, 12, 16]), copies=stream_kind_of(post) == 'bytesio')
        cases.append(('attr_hist', [fl, rng.random() < 0.5, cls, rng.choice([0, 1, 3, 16]), post, sec, hist]))
    # ---------------- histories on one EHABIInfo object, its entries and decoder objects
    for _ in range(150 * T):
        kinds = [rng.choice(EH_KINDS + ['inline', 't0', 't12', 't12']) for _ in range(rng.randint(1, 6))]
        img = rand_eh_image(rng, kinds)
        cases.append(('eh_hist', img + [rand_eh_hist(rng, kinds, rng.choice([2, 3, 5, 8, 12]),
                                                     copies=stream_kind_of(img[3]) == 'bytesio')]))
    # ---------------- build attributes
    shapes = []
    for fl in ('arm', 'riscv'):
        # boundary shapes: exactly 1 / 2 / 3 subsections and sub-subsections
        for nsub in (1, 2, 3):
            for nss in (0, 1, 2, 3):
                shapes.append((fl, nsub, [nss], [0, 1, 2, 3]))
        for _ in range(60 * T):
            shapes.append((fl, rng.choice([1, 1, 2, 2, 3, 4, 6]), [0, 1, 1, 2, 2, 3, 5], [0, 1, 2, 3, 5, 8]))
    for fl, nsub, nssc, nac in shapes:
        sec = rand_section(rng, fl, nsub, nssc, nac)
        le = rng.random() < 0.5
        cls = rng.choice([32, 32, 64])
        pre = rng.choice([0, 1, 3, 7, 16, 100])
        post = rand_post(rng, [0, 1, 5, 32], cls)
        for mode in ('eager', 'nested'):
            cases.append(('attr', [fl, le, cls, pre, post, mode, sec]))
    # malformed stream: one byte of a valid section replaced / section size changed (out of domain)
    for _ in range(80 * T):
        fl = rng.choice(['arm', 'riscv'])
        sec = rand_section(rng, fl, rng.choice([1, 2]), [1, 2], [1, 2, 3], ascii_only=True)
        cases.append(('attr_mut', [fl, rng.random() < 0.5, 32, rng.choice([0, 5]), rng.choice([0, 9]), rng.choice(['eager', 'nested']),
                                   sec, rng.getrandbits(16), rng.choice([0, 0, 1, 2, 5, 0x41, 0x7f]), rng.choice([0, 0, 0, -1, 1, -3])]))
    # ---------------- prel31
    ws = [d % 2 ** 31 for d in DISP] + [(d % 2 ** 31) | 0x80000000 for d in DISP[:12]] + \
         [rng.getrandbits(32) for _ in range(40 * T)]
    places = [0, 4, 0x34, 0x1000, 0x7ffffffc, 0x80000000, 0xfffffff8, 0xffffffff, 2 ** 40, 2 ** 64 - 4]
    for w in ws:
        for p in [rng.choice(places), rng.choice(places), rng.getrandbits(32)]:
            cases.append(('prel31', [w, p]))
    # ---------------- index / table entries
    for k in EH_KINDS:                       # every kind alone
        for _ in range(6 * T):
            img = rand_eh_image(rng, [k])
            cases.append(('eh', img + [0]))
        for _ in range(4 * T):               # ... and with its last word (table or index) being the last word of the file
            img = rand_eh_image(rng, [k], 'eof')
            cases.append(('eh', img + [0]))
    for _ in range(60 * T):
        kinds = [rng.choice(EH_KINDS) for _ in range(rng.randint(2, 7))]
        img = rand_eh_image(rng, kinds)
        for n in range(len(kinds)):
            cases.append(('eh', img + [n]))
    for _ in range(5):                       # index out of range
        img = rand_eh_image(rng, ['cant', 'inline'])
        cases.append(('eh', img + [rng.choice([2, 3, 100])]))
    # ---------------- byte-code
    for b in range(256):                     # every first byte, every operand byte
        if b in SH2:
            for op in range(256):
                cases.append(('bc_raw', [bytes([b, op])]))
            cases.append(('bc_raw', [bytes([b])]))
        elif b == 0xb2:
            for op in range(256):
                cases.append(('bc_raw', [bytes([b, op])]))
                cases.append(('bc_raw', [bytes([b, op, 0xb0])]))
                cases.append(('bc_raw', [bytes([b, op | 0x80, op ^ 0x55])]))
            cases.append(('bc_raw', [bytes([b])]))
        else:
            cases.append(('bc_raw', [bytes([b])]))
    cases.append(('bc_raw', [bytes([0xb2, 0x81, 0x82, 0x01])]))
    cases.append(('bc_raw', [bytes([0xb2, 0x04, 0x00])]))
    cases.append(('bc_raw', [bytes([0xb2, 0x04])]))
    for _ in range(300 * T):
        n = rng.choice([1, 2, 3, 4, 6, 10, 20, 40])
        cases.append(('bc', [[rand_insn(rng) for _ in range(n)]]))
    for _ in range(200 * T):
        cases.append(('bc_raw', [bytes(rng.getrandbits(8) for _ in range(rng.randint(1, 24)))]))
    return cases


# ------------------------------------------------------------------ observing the implementation
def canon_attr(a):
    v = a.value
    if isinstance(v, str):
        v = v.encode('utf-8')
    elif not isinstance(v, int):
        v = canon_attr(v)
    x = a.extra
    if isinstance(x, str):
        x = x.encode('utf-8')
    elif x is not None:
        x = list(x)
    return [a.tag, v, x]


class RUNAWAY(Exception):
    pass


class CountingIO(io.BytesIO):
    """the file handed to the library; a call sequence that keeps reading for ever is cut off"""
    def __init__(self, data, cap):
        super().__init__(data)
        self.reads, self.cap = 0, cap

    def read(self, *a):
        self.reads += 1
        if self.reads > self.cap:
            raise RUNAWAY()
        return super().read(*a)


def observe_attr_section(img, name, mode, stream=None):
    from elftools.elf.elffile import ELFFile
    cap = 4 * len(img) + 64

    def cap_iter(it):
        for n, x in enumerate(it):
            if n > cap:
                raise RUNAWAY()
            yield x
    # reads are counted too: a walk that the library itself runs to the end (a memo, a list()) on a
    # malformed section that never ends must come back as an observation, not hang the check
    elf = ELFFile(stream if stream is not None else CountingIO(bytes(img), 200 * len(img) + 5000))
    sec = elf.get_section_by_name(name)
    out = []
    if mode == 'eager':
        subsecs = list(cap_iter(sec.iter_subsections()))
        level2 = [list(cap_iter(s.iter_subsubsections())) for s in subsecs]
        for s, sss in zip(subsecs, level2):
            out.append([s['length'], s['vendor_name'].encode('utf-8'),
                        [[canon_attr(ss.header), [canon_attr(a) for a in cap_iter(ss.iter_attributes())]] for ss in sss]])
    else:
        for s in cap_iter(sec.iter_subsections()):
            subs = []
            for ss in cap_iter(s.iter_subsubsections()):
                subs.append([canon_attr(ss.header), [canon_attr(a) for a in cap_iter(ss.iter_attributes())]])
            out.append([s['length'], s['vendor_name'].encode('utf-8'), subs])
    return ['ok', out]


ITER_M = ['iter_subsections', 'iter_subsubsections', 'iter_attributes']
NUM_P = ['num_subsections', 'num_subsubsections', 'num_attributes']
LIST_P = ['subsections', 'subsubsections', 'attributes']
DROPPED = object()


def observe_attr_hist(img, name, hist, stream=None):
    """the call sequence [hist] on ONE section object (object #0) and the objects it hands out"""
    from elftools.elf.elffile import ELFFile
    from elftools.elf.sections import AttributesSection, AttributesSubsection, AttributesSubsubsection
    if stream is None:
        stream = CountingIO(bytes(img), 200 * len(img) + 5000)
    sec = ELFFile(stream).get_section_by_name(name)
    objs, gens, out = [sec], [], []

    def level(x):
        return 0 if isinstance(x, AttributesSection) else 1 if isinstance(x, AttributesSubsection) else 2

    def see(x):
        """what is seen of a yielded thing; objects get the next number"""
        if isinstance(x, AttributesSubsection):
            objs.append(x)
            return ['subsec', x['length'], x['vendor_name'].encode('utf-8')]
        if isinstance(x, AttributesSubsubsection):
            objs.append(x)
            return ['subsub', canon_attr(x.header)]
        return ['attr', canon_attr(x)]

    def flt(f):
        return None if f is None or f == 'none' else f.decode('utf-8')

    def scramble(x):
        """after having looked at it, the caller edits what it was given (Attribute objects, result lists):
        they are the caller's, nothing the library answers later may depend on them"""
        if isinstance(x, list):
            for y in x:
                scramble(y)
            x.clear()
        elif not isinstance(x, (AttributesSubsection, AttributesSubsubsection)):
            if isinstance(x.extra, list):
                x.extra.append(0x5a5a)
            else:
                x.extra = 'scrambled'
            x.value = None

    def step(op):
        k = op[0]
        if k == 'disturb':
            stream.seek(min(op[1], len(img)))       # an mmap refuses to seek past its end
            return ['unit']
        if k == 'copy':
            if not 0 <= op[1] < len(objs):
                return ['bad']
            objs[op[1]] = copy_how(op[2])(objs[op[1]])
            return ['unit']
        if k in ('start', 'num', 'list', 'iter'):
            if not 0 <= op[1] < len(objs):
                return ['bad']
            o = objs[op[1]]
            lvl = level(o)
            if k == 'start':
                gens.append(getattr(o, ITER_M[lvl])(flt(op[2])))
                return ['unit']
            if k == 'num':
                return ['int', getattr(o, NUM_P[lvl])]
            xs = getattr(o, LIST_P[lvl]) if k == 'list' else list(getattr(o, ITER_M[lvl])(flt(op[2])))
            first = len(objs)
            seen = [see(x) for x in xs]
            if lvl == 2 and k == 'list':
                del xs[0]       # .attributes starts with the sub-subsection's own header object: not the caller's to edit
            scramble(xs)
            return ['items', first, seen]
        if not 0 <= op[1] < len(gens):
            return ['bad']
        g = gens[op[1]]
        if k == 'next':
            if g is DROPPED:
                return ['stop']
            try:
                x = next(g)
            except StopIteration:
                return ['stop']
            n = len(objs)
            v = see(x)
            scramble(x)
            return ['item', n if len(objs) > n else None, v]
        if k == 'close':
            if g is not DROPPED:
                g.close()
            return ['unit']
        if k == 'drop':             # the last reference goes away (as when a for loop is left by break)
            gens[op[1]] = DROPPED
            del g
            gc.collect()
            return ['unit']
        raise ValueError(k)
    for op in hist:
        out.append(impl_call(step, op))
    return ['ok', out]


def observe_eh_hist(img, hist, stream=None):
    """the call sequence [hist] on ONE EHABIInfo object, the entries and the decoder objects it leads to"""
    from elftools.elf.elffile import ELFFile
    from elftools.ehabi.decoder import EHABIBytecodeDecoder
    elf = ELFFile(stream if stream is not None else io.BytesIO(bytes(img)))
    info = elf.get_ehabi_infos()[0]
    entries, decs, out = [], [], []

    def fields(e):
        bc = e.bytecode_array
        return ['entry', [e.function_offset, e.personality, None if bc is None else bytes(bc), e.eh_table_offset,
                          bool(e.unwindable), bool(e.corrupt), None]]

    def items(mn):
        return ['mnem', None if mn is None else [[bytes(m.bytecode), m.mnemonic] for m in mn]]

    def step(op):
        nonlocal info
        k = op[0]
        if k == 'copyinfo':
            if op[2] == 'structs':
                info._struct = copy_how(op[1])(info._struct)
            else:
                info = copy_how(op[1])(info)
            return ['unit']
        if k == 'reopen':
            info = (elf if op[1] == 'same' else copy_how(op[1])(elf)).get_ehabi_infos()[0]
            return ['unit']
        if k == 'num':
            return ['int', info.num_entry()]
        if k == 'get':
            e = info.get_entry(op[1])
            entries.append(e)
            return fields(e)
        if k in ('fields', 'mnem', 'decoder', 'mutate'):
            if not 0 <= op[1] < len(entries):
                return ['bad']
            e = entries[op[1]]
            if k == 'mutate':           # the caller's own object: EMutate of Spec/C20Hist.v
                if e.function_offset is not None:
                    e.function_offset += 0x1000
                if e.bytecode_array is not None:
                    e.bytecode_array.append(0xb0)
                return ['unit']
            if k == 'fields':
                return fields(e)
            if k == 'mnem':
                return items(e.mnmemonic_array())
            if e.bytecode_array is None:
                return ['bad']
            d = EHABIBytecodeDecoder(list(e.bytecode_array))     # a decoder keeps the list it is given
            decs.append(d)
            return items(d.mnemonic_array)
        if not 0 <= op[1] < len(decs):
            return ['bad']
        d = decs[op[1]]
        if k == 'redecode':
            d._decode()
        return items(d.mnemonic_array)
    for op in hist:
        out.append(impl_call(step, op))
    return out


def first_diff(a, b):
    """index of the first answer in which two history results differ (None: the results as a whole differ)"""
    if isinstance(a, list) and isinstance(b, list) and len(a) == 2 and len(b) == 2 and a[0] == b[0] == 'ok':
        a, b = a[1], b[1]
    if not (isinstance(a, list) and isinstance(b, list)) or (a and a[0] == 'err') or (b and b[0] == 'err'):
        return None
    for i, (x, y) in enumerate(zip(a, b)):
        if x != y:
            return i
    return None


def observe_eh(img, n, stream=None):
    from elftools.elf.elffile import ELFFile
    elf = ELFFile(stream if stream is not None else io.BytesIO(bytes(img)))
    infos = elf.get_ehabi_infos()
    e = infos[0].get_entry(n)
    mn = impl_call(e.mnmemonic_array)
    if mn is not None and not (isinstance(mn, list) and mn and mn[0] == 'err'):
        mn = [[bytes(m.bytecode), m.mnemonic] for m in mn]
    bc = e.bytecode_array
    return ['ok', [e.function_offset, e.personality, None if bc is None else bytes(bc), e.eh_table_offset,
                   bool(e.unwindable), bool(e.corrupt), mn]]


def norm_err(r):
    """RUNAWAY (the harness's loop cap) and FUEL (the model's) are the same observation"""
    if isinstance(r, list) and len(r) == 2 and r[0] == 'err' and r[1] in ('RUNAWAY', 'FUEL'):
        return ['err', 'NONTERMINATION']
    return r


def attr_image(a, body):
    """pre: filler between the headers and the section; post: placement descriptor (see placement_of) whose n is
    the number of filler bytes after the section"""
    fl, le, cls, pre, post = a[0], a[1], a[2], a[3], a[4]
    ehsize = 52 if cls == 32 else 64
    name, machine = ('.ARM.attributes', 40) if fl == 'arm' else ('.riscv.attributes', 243)
    tail, shf, _ = placement_of(post)
    if isinstance(tail, list):
        off = SH_FIRST_BASE + pre
        total = ['shfirst', off + len(body) + tail[1]]
    else:
        off = ehsize + pre
        total = off + len(body) + tail
    img, hdrs = build_elf(le, cls, machine, [(name, 0x70000003, off, len(body), shf)], total)
    img[off:off + len(body)] = body
    return img, name, off, hdrs[0]


def eh_image(le, exidx_off, size, placement):
    """ELF32 ARM image with the .ARM.exidx header (and, if the placement has one, an .ARM.extab header);
    returns (img, the ten fields of the .ARM.exidx header)"""
    total, shf, extab = placement_of(placement)
    secs = [('.ARM.exidx', 0x70000001, exidx_off, size, shf)]
    if extab:
        secs.append(('.ARM.extab', 1, extab[0], extab[1], extab[2]))
    img, hdrs = build_elf(le, 32, 40, secs, total)
    return img, hdrs[0]


def rand_post(rng, choices, cls, skind=None):
    p = rand_placement(rng)
    return ['after' if p == 'after' else 'shfirst', 0 if p == 'eof' else rng.choice(choices), rand_shf(rng, cls, ATTR_ENTSIZES),
            None, skind or draw_kind(rng, 0.5)]


def attr_shape(sec):
    nsub = len(sec)
    nss = max([len(s[1]) for s in sec] + [0])
    return nsub, nss


def evaluate(ctx, cases):
    with Streams('pv-streams-c20-') as S:
        return _evaluate(ctx, cases, S)


def _evaluate(ctx, cases, S):
    def opened(desc, img):
        """the image as the stream kind of the case's placement descriptor (None: the in-memory default)"""
        kind = stream_kind_of(desc)
        ctx.bump('stream_kind', kind)
        return None if kind == 'bytesio' else S.open(bytes(img), kind)
    drv = ctx.driver
    # pass 1: encodings and domain checks from the Coq specification
    reqs = []
    for kind, a in cases:
        if kind in ('attr', 'attr_mut'):
            reqs.append(['attr_enc', a[0], a[1], a[6]])
            reqs.append(['attr_wf', a[0], a[6]])
            reqs.append(['attr_expected', a[0], a[6]])
        elif kind == 'attr_hist':
            reqs.append(['attr_enc', a[0], a[1], a[5]])
            reqs.append(['attr_wf', a[0], a[5]])
            reqs.append(['attr_hist_spec', a[0], a[5], a[6]])
        elif kind == 'eh_hist':
            le, exidx_off, ents = a[0], a[1], a[2]
            for i, ent in enumerate(ents):
                reqs.append(['eh_enc', le, exidx_off + 8 * i, ent])
                reqs.append(['eh_wf', exidx_off + 8 * i, ent])
                reqs.append(['eh_expected', exidx_off + 8 * i, ent])
            reqs.append(['eh_hist_spec', exidx_off, ents, a[4]])
        elif kind == 'eh':
            le, exidx_off, ents = a[0], a[1], a[2]
            for i, ent in enumerate(ents):
                reqs.append(['eh_enc', le, exidx_off + 8 * i, ent])
            n = a[4]
            if n < len(ents):
                reqs.append(['eh_wf', exidx_off + 8 * n, ents[n]])
                reqs.append(['eh_expected', exidx_off + 8 * n, ents[n]])
        elif kind == 'bc':
            reqs.append(['bc_enc', a[0]])
            reqs.append(['bc_wf', a[0]])
            reqs.append(['bc_expected', a[0]])
        elif kind == 'bc_raw':
            reqs.append(['bc_spec', a[0]])
        elif kind == 'prel31':
            reqs.append(['prel31_spec', a[0], a[1]])
            reqs.append(['prel31_model', a[0], a[1]])
    ans = iter(drv.batch(reqs))
    work = []
    reqs2 = []
    for kind, a in cases:
        w = {}
        if kind in ('attr', 'attr_mut'):
            body, wf, exp = next(ans), next(ans), next(ans)
            sh_size = len(body)
            if kind == 'attr_mut':
                body = bytearray(body)
                pos = a[7] % len(body)
                body[pos] = a[8]
                sh_size = max(0, len(body) + a[9])
                wf = 0
            img, name, off, hdr = attr_image(a, bytes(body))
            if kind == 'attr_mut' and sh_size != len(body):
                # patch sh_size in the section header (index 1): find it from e_shoff
                e = '<' if a[1] else '>'
                shoff = struct.unpack_from(e + 'I', img, 32)[0]
                struct.pack_into(e + 'I', img, shoff + 40 + 20, sh_size)
            w = dict(img=img, name=name, wf=bool(wf), exp=exp, mode=a[5], shape=attr_shape(a[6]))
            sh_first = isinstance(placement_of(a[4])[0], list)
            ctx.bump('attr_section_end', 'eof' if off + len(body) == len(img) else 'sh-table-first' if sh_first else 'sh-table-after')
            ctx.bump('attr_sh_entsize', hdr[9] if hdr[9] < 32 else 'large')
            if kind == 'attr':
                reqs2.append(['attr_model_sec', a[0], a[1], bytes(img), hdr])
            else:
                reqs2.append(['attr_model', a[0], a[1], bytes(img), off, sh_size])
        elif kind == 'attr_hist':
            body, wf, exp = next(ans), next(ans), next(ans)
            img, name, off, hdr = attr_image(a, bytes(body))
            w = dict(img=img, name=name, wf=bool(wf), exp=exp, shape=attr_shape(a[5]))
            reqs2.append(['attr_hist_model_sec', a[0], a[1], bytes(img), hdr, a[6]])
        elif kind == 'eh_hist':
            le, exidx_off, ents, total, hist = a
            per = [(next(ans), next(ans), next(ans)) for _ in ents]
            exp = next(ans)
            size = 8 * len(ents)
            img, hdr = eh_image(le, exidx_off, size, total)
            for i, ((idx, tbl, tab), _, _) in enumerate(per):
                img[exidx_off + 8 * i: exidx_off + 8 * i + 8] = idx
                if tab:
                    img[tbl:tbl + len(tab)] = tab
            w = dict(img=img, wf=all(bool(x[1]) for x in per), exp=exp, tblspec=[bool(x[2][1]) for x in per])
            ctx.bump('eh_sh_entsize', hdr[9] if hdr[9] < 32 else 'large')
            reqs2.append(['eh_hist_model_sec', bytes(img), le, hdr, hist])
        elif kind == 'eh':
            le, exidx_off, ents, total, n = a
            encs = [next(ans) for _ in ents]
            if n < len(ents):
                wf, (exp, tblspec) = next(ans), next(ans)
            else:
                wf, exp, tblspec = 0, None, 1
            size = 8 * len(ents)
            img, hdr = eh_image(le, exidx_off, size, total)
            words = []
            for i, (idx, tbl, tab) in enumerate(encs):
                img[exidx_off + 8 * i: exidx_off + 8 * i + 8] = idx
                if tab:
                    img[tbl:tbl + len(tab)] = tab
                words.append(struct.unpack_from(('<' if le else '>') + 'II', bytes(idx)))
            w = dict(img=img, wf=bool(wf), exp=exp, tblspec=bool(tblspec), words=words, n=n, ent=ents[n] if n < len(ents) else None)
            ctx.bump('eh_sh_table', 'first' if isinstance(placement_of(total)[0], list) else 'after-bodies')
            ctx.bump('eh_sh_entsize', hdr[9] if hdr[9] < 32 else 'large')
            ctx.bump('eh_extab_section', 'present' if placement_of(total)[2] else 'absent')
            if n < len(ents) and encs[n][2] and encs[n][1] + len(encs[n][2]) == len(img):
                ctx.bump('eh_table_last_word_at_eof', ents[n][0] + ('/%d-extra-words' % len(ents[n][6]) if ents[n][0] == 't12' else ''))
            elif n < len(ents) and not encs[n][2] and exidx_off + size == len(img):
                ctx.bump('eh_index_last_word_at_eof', ents[n][0])
            reqs2.append(['eh_model_sec', bytes(img), le, hdr, n])
        elif kind == 'bc':
            enc, wf, exp = next(ans), next(ans), next(ans)
            w = dict(data=enc, wf=bool(wf), exp=exp)
            reqs2.append(['bc_model', enc])
        elif kind == 'bc_raw':
            w = dict(data=a[0], exp=next(ans))
            reqs2.append(['bc_model', a[0]])
        elif kind == 'prel31':
            w = dict(spec=next(ans), model=next(ans))
            reqs2.append(['prel31_spec', a[0], a[1]])     # placeholder to keep the batches aligned
        else:
            raise ValueError(kind)
        work.append(w)
    models = drv.batch(reqs2)

    from elftools.ehabi.decoder import EHABIBytecodeDecoder
    from elftools.ehabi.ehabiinfo import arm_expand_prel31

    def decode_bc(data):
        return ['ok', [[bytes(m.bytecode), m.mnemonic] for m in EHABIBytecodeDecoder(list(data)).mnemonic_array]]

    for (kind, a), w, m in zip(cases, work, models):
        m = norm_err(m)
        if kind in ('attr', 'attr_mut'):
            st = opened(a[4], w['img']) if kind == 'attr' else None
            impl = norm_err(impl_call(observe_attr_section, w['img'], w['name'], w['mode'], st))
            if st is not None:
                S.drop_files()
            nsub, nss = w['shape']
            if kind == 'attr':
                key = ('attr/2+subsections' if nsub >= 2 else 'attr/2+subsubsections' if nss >= 2 else 'attr/single')
                ctx.bump('attr_subsections', min(nsub, 6))
                ctx.bump('attr_subsubsections_max', min(nss, 6))
                ctx.bump('attr_mode', w['mode'])
                ctx.record(kind, a, impl=impl, spec=w['exp'], model=m, in_domain=w['wf'],
                           nontrivial=(nsub >= 2 or nss >= 2), key=key)
            else:
                ctx.bump('attr_mut_outcome', impl[0] if impl[0] == 'ok' else impl[1])
                ctx.record(kind, a, impl=impl, spec=m, model=m, in_domain=False, nontrivial=True)
        elif kind == 'attr_hist':
            st = opened(a[4], w['img'])
            impl = impl_call(observe_attr_hist, w['img'], w['name'], a[6], st)
            if st is not None:
                S.drop_files()
            if isinstance(impl, list) and impl and impl[0] == 'ok':
                impl = ['ok', [norm_err(x) for x in impl[1]]]
            if isinstance(m, list) and m and m[0] == 'ok':
                m = ['ok', [norm_err(x) for x in m[1]]]
            from tools.lib import sx as _sx
            ci, cs = _sx.canon(impl), _sx.canon(w['exp'])
            d = first_diff(ci, cs)
            key = 'attr-hist/' + (a[6][d][0] if d is not None else 'whole')
            nsub, nss = w['shape']
            ctx.bump('attr_hist_len', min(len(a[6]), 16))
            ctx.bump('attr_hist_subsections', min(nsub, 6))
            for op in a[6]:
                ctx.bump('attr_hist_ops', op[0])
            if ci[0] == 'ok':
                ctx.bump('attr_hist_dangling_refs', sum(1 for x in cs[1] if x == ['bad']))
            ctx.record(kind, a, impl=impl, spec=w['exp'], model=m, in_domain=w['wf'], nontrivial=len(a[6]) >= 2, key=key)
        elif kind == 'eh_hist':
            st = opened(a[3], w['img'])
            impl = impl_call(observe_eh_hist, w['img'], a[4], st)
            if st is not None:
                S.drop_files()
            # which index entry an `entry` answer is about: get n registers entry objects in order
            nent, reg, about = len(a[2]), [], []
            for op in a[4]:
                if op[0] == 'get' and 0 <= op[1] < nent:
                    reg.append(op[1])
                    about.append(op[1])
                elif op[0] == 'fields' and 0 <= op[1] < len(reg):
                    about.append(reg[op[1]])
                else:
                    about.append(None)

            def erase(r):
                """eh_table_offset is left open by the specification for some entry kinds"""
                if not isinstance(r, list) or (r and r[0] == 'err'):
                    return r
                out = []
                for x, n in zip(r, about):
                    if isinstance(x, list) and x and x[0] == 'entry' and n is not None and not w['tblspec'][n]:
                        x = ['entry', list(x[1])]
                        x[1][3] = 'unspecified'
                    out.append(x)
                return out
            from tools.lib import sx as _sx
            impl, spec, m = erase(_sx.canon(impl)), erase(_sx.canon(w['exp'])), erase(_sx.canon(m))
            truncated = any(x == ['err', 'truncated'] for x in spec)
            d = first_diff(impl, spec)
            key = 'eh-hist/' + (a[4][d][0] if d is not None else 'whole')
            ctx.bump('eh_hist_len', min(len(a[4]), 12))
            for op in a[4]:
                ctx.bump('eh_hist_ops', op[0])
            ctx.bump('eh_hist_dangling_refs', sum(1 for x in spec if x == ['bad']))
            ctx.record(kind, a, impl=impl, spec=spec, model=m, in_domain=w['wf'] and not truncated,
                       nontrivial=len(a[4]) >= 2, key=key)
        elif kind == 'eh':
            st = opened(a[3], w['img'])
            impl = norm_err(impl_call(observe_eh, w['img'], w['n'], st))
            if st is not None:
                S.drop_files()
            spec = w['exp'] if w['exp'] is not None else m
            if not w['tblspec']:
                # eh_table_offset is left open by the specification for this entry kind
                def erase(r):
                    if isinstance(r, list) and r and r[0] == 'ok':
                        r = ['ok', list(r[1])]
                        r[1][3] = 'unspecified'
                    return r
                impl, spec, m = erase(impl), erase(spec), erase(m)
            truncated = isinstance(spec, list) and spec[0] == 'ok' and spec[1][6] == ['err', 'truncated']
            dom = w['wf'] and not truncated
            ent = w['ent']
            signbit = w['n'] < len(w['words']) and any(bit26_ne_bit30(x) for x in w['words'][w['n']][:1])
            if ent is not None and ent[0] == 'gen':
                signbit = signbit or bit26_ne_bit30(ent[3] % 2 ** 31)
            has_b2 = ent is not None and isinstance(spec, list) and spec[0] == 'ok' and isinstance(spec[1][2], bytes) and 0xb2 in spec[1][2]
            key = ('eh/prel31-bit26!=bit30' if signbit else
                   'eh/bytecode-with-b2' if has_b2 else 'eh/' + (ent[0] if ent else 'index-error'))
            ctx.bump('eh_kind', ent[0] if ent else 'index-error')
            ctx.record(kind, a, impl=impl, spec=spec, model=m, in_domain=dom,
                       nontrivial=ent is not None and (abs(ent[1]) >= 2 ** 26 or ent[0] not in ('cant', 'cidx')), key=key)
        elif kind == 'bc':
            impl = impl_call(decode_bc, w['data'])
            has_b2 = any(i[0] == 'iu' for i in a[0])
            ctx.bump('bc_len', min(len(w['data']), 40))
            ctx.record(kind, a, impl=impl, spec=w['exp'], model=m, in_domain=w['wf'], nontrivial=len(a[0]) >= 2,
                       key='bytecode/with-b2-uleb' if has_b2 else 'bytecode/other')
        elif kind == 'bc_raw':
            impl = impl_call(decode_bc, w['data'])
            spec = w['exp']
            dom = spec[0] == 'ok'
            if not dom:
                spec = m          # a cut-off instruction: outside the property, model vs impl only
            ctx.bump('bc_first_byte_class', '%02x' % (a[0][0] & 0xf0))
            ctx.record(kind, a, impl=impl, spec=spec, model=m, in_domain=dom, nontrivial=len(a[0]) >= 2,
                       key='bytecode/with-b2-uleb' if 0xb2 in a[0] else 'bytecode/other')
        elif kind == 'prel31':
            impl = impl_call(arm_expand_prel31, a[0], a[1])
            ctx.bump('prel31_class', ('neg' if (a[0] >> 30) & 1 else 'pos') + ('-large' if bit26_ne_bit30(a[0]) or (a[0] & 0x3c000000) not in (0, 0x3c000000) else '-small'))
            ctx.record(kind, a, impl=impl, spec=w['spec'], model=w['model'], in_domain=0 <= a[0] < 2 ** 32 and a[1] >= 0,
                       nontrivial=True, key='prel31/bit26!=bit30' if bit26_ne_bit30(a[0]) else 'prel31/other')
