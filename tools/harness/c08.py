"""C08 correspondence: relocation tables, RELR expansion, debug-section relocation.

impl  = the real library on a synthesized ELF image (ELFFile over BytesIO):
        RelocationSection / RelocationTable / RelrRelocationSection / Dynamic.get_relocation_tables,
        DWARFInfo.debug_info_sec.stream after ELFFile.get_dwarf_info(relocate_dwarf_sections=...),
        RelocationHandler.apply_section_relocations on a BytesIO copy.
model = extracted Model/C08Reloc.v run on the same image bytes.
spec  = extracted Spec/C08Spec.v on the abstract input (entries, RELR words, psABI formulas).
Relocation / RELR / symbol / dynamic records are encoded by the Coq spec encoders (driver);
the ELF container (file header, section headers, program headers) is assembled here."""
import io, struct
from tools.lib.framework import impl_call

CLAIMED = True
CONFIG = {'assumptions': [
    'P (place) = r_offset: debug sections of a relocatable object have sh_addr 0; S = st_value of the referenced symbol',
    'relocation sections are found by the conventional name .rel/.rela + target name (what the library does)',
    'RELR addresses are compared as unbounded integers; streams whose addresses pass 2^wordbits are out of domain',
    'ELF container (Ehdr/Shdr/Phdr) assembled by the harness; Rel/Rela/Relr/Sym/Dyn records by the Coq spec encoders']}
LEVEL = {'text': 'Machine-checked: REL/RELA (incl. MIPS64 packed r_info) table round trips for every entry list, RELR '
                 'shifting-loop = gABI bitmap reading for every word list, the RELR memo (_cached_relocations) is None or the '
                 'full expansion after every finite history of calls (walks started / resumed / abandoned, num_relocations, '
                 'get_relocation, complete walks) and every answer of a RELR or REL/RELA table object after any such history '
                 'equals the stateless expansion, the n-th get_dwarf_info call on one ELFFile depends only on its own flag '
                 '(relocations are applied to the raw section bytes each time, the image is never written), every '
                 'regenerated recipe of the listed '
                 'machines equals the psABI formula modulo the field width for all integers, the apply loop writes '
                 'exactly the wrapped value in file byte order and changes no other byte, error classes exact, no '
                 'relocation when disabled. Recipes, calc functions (symbolic evaluation), machine dispatch and record '
                 'layouts are regenerated from the live code; loops are hand models pinned by correspondence on '
                 'synthesized relocatable / dynamic images.',
         'design_ref': '4.8', 'technique': 'Coq proof (induction, Z.testbit, ring/lia on translated bodies) + extracted-model correspondence',
         'note': 'Trusted: Coq kernel, tools/gen symbolic evaluator, ExtrOcamlBasic extraction, harness image assembler. '
                 'No axioms. psABI tables written from the processor supplements (cross-checked with /usr/include/elf.h numbers).'}
RULE = ('cases: REL/RELA tables (both classes, byte orders, MIPS64, 0..many entries, negative addends, garbage around) read '
        'through section, raw table and dynamic tags; RELR word streams of every bit-pattern class; histories of calls on ONE '
        'table object (RelrRelocationSection / RelrRelocationTable / RelocationSection / RelocationTable): walks started, '
        'resumed by next() or a for loop left by break, abandoned by close() or by dropping the generator, interleaved with '
        'num_relocations / get_relocation(n) / complete walks, every answer compared; sequences of get_dwarf_info(relocate '
        'in {True, False}) / RelocationHandler calls on ONE ELFFile object (TT, TF, FT, FFT, random; REL flavours twice as '
        'often), every call against the stateless reference, earlier streams re-read at the end, file image unchanged; '
        'all-zero entries (R_*_NONE, symbol 0, offset 0) as only / first / middle / last / run / several entries of every '
        'flavour incl. MIPS64, in sections, raw tables, histories and dynamic tables, iteration compared with indexing; '
        'dynamic images where [DT_REL[A], +SZ) contains / abuts / partially overlaps / equals / lies inside [DT_JMPREL, '
        '+DT_PLTRELSZ) (same flavour), each table being what its own tags say; relocatable objects with 0xfeff / 0xff00 / more '
        'section headers (e_shnum = 0, count in sh_size of header 0; SHT_NULL filler before or after the real sections) '
        'whose .rel/.rela.debug_info must still be found and applied; symbols of every STT_* type / binding / section '
        'index and odd values (ARM Thumb function symbols); ~45 e_machine values outside the supported set (known and '
        'unknown numbers) whose debug relocations must be rejected, not skipped; stripped files linked by '
        '.gnu_debuglink (valid / bad CRC, own .debug_info present) to a relocatable debug file, both flags; '
        'objects with TWO symbol tables (.symtab + .dynsym / second SHT_SYMTAB) whose .rel[a].debug_info and '
        '.rel[a].debug_line link to different ones (different values at the same index; an index in range for one table '
        'only), loaded by one get_dwarf_info or one RelocationHandler in either order; every image handed to the '
        'library as a drawn stream kind (BytesIO, file, warm / small-buffer / at-end file, mmap, gzip, decoy fd); '
        'relocation application '
        'on synthesized relocatable images for every (machine, flavour, type) with random S/A/V, overlapping and boundary '
        'offsets, error classes, relocation on/off, via get_dwarf_info and via RelocationHandler. distinct = hash(kind, '
        'abstract); non-trivial = at least one entry/word/relocation or an error case')

# ----------------------------------------------------------------------------- ELF container assembly
SHT = dict(NULL=0, PROGBITS=1, SYMTAB=2, STRTAB=3, RELA=4, HASH=5, DYNAMIC=6, NOTE=7, NOBITS=8, REL=9, RELR=19)
EM = dict(X86=3, X64=62, ARM=40, AARCH64=183, MIPS=8, PPC64=21, S390=22, LOONGARCH=258, SPARC=2, BPF=247, RISCV=243)


def _pk(le, fmt, *v):
    return struct.pack(('<' if le else '>') + fmt, *v)


def ehdr(le, is64, e_type, machine, shoff, shnum, shstrndx, phoff=0, phnum=0, flags=0):
    ident = b'\x7fELF' + bytes([2 if is64 else 1, 1 if le else 2, 1, 0, 0]) + b'\0' * 7
    if is64:
        return ident + _pk(le, 'HHIQQQIHHHHHH', e_type, machine, 1, 0, phoff, shoff, flags, 64, 56, phnum, 64, shnum, shstrndx)
    return ident + _pk(le, 'HHIIIIIHHHHHH', e_type, machine, 1, 0, phoff, shoff, flags, 52, 32, phnum, 40, shnum, shstrndx)


def shdr(le, is64, name, typ, flags, addr, off, size, link, info, align, entsize):
    if is64:
        return _pk(le, 'IIQQQQIIQQ', name, typ, flags, addr, off, size, link, info, align, entsize)
    return _pk(le, 'IIIIIIIIII', name, typ, flags, addr, off, size, link, info, align, entsize)


def phdr(le, is64, typ, flags, off, vaddr, filesz, memsz, align=1):
    if is64:
        return _pk(le, 'IIQQQQQQ', typ, flags, off, vaddr, vaddr, filesz, memsz, align)
    return _pk(le, 'IIIIIIII', typ, off, vaddr, vaddr, filesz, memsz, flags, align)


def build_elf(le, is64, machine, e_type, sections, segments=(), gap=b''):
    """sections: list of dicts name,type,data and optional flags,addr,link,info,align,entsize,size (excluding the
    null section; .shstrtab is appended).  segments: list of (p_type, section index (1-based) or (off,size), vaddr).
    gap: garbage bytes put between pieces.  Returns (image, [file offset of each section incl. null=0])."""
    secs = [dict(name='', type=0, data=b'')] + [dict(s) for s in sections]
    names = b'\0'
    nameoff = []
    for s in secs + [dict(name='.shstrtab')]:
        nameoff.append(len(names) if s['name'] else 0)
        if s['name']:
            names += s['name'].encode() + b'\0'
    secs.append(dict(name='.shstrtab', type=3, data=names))
    ehsize = 64 if is64 else 52
    img = bytearray(b'\0' * ehsize)
    offs = []
    for s in secs:
        img += gap
        offs.append(len(img) if s is not secs[0] else 0)
        img += s['data']
    img += gap
    phoff = len(img) if segments else 0
    for seg in segments:
        typ, where, vaddr = seg[0], seg[1], seg[2]
        if isinstance(where, tuple):
            o, z = where
        else:
            o, z = offs[where], len(secs[where]['data'])
        img += phdr(le, is64, typ, 4, o, vaddr, z, z)
    img += gap
    shoff = len(img)
    # gABI extended numbering: from 0xff00 sections on, e_shnum = 0 and the count is sh_size of header 0;
    # a string table index >= 0xff00 is e_shstrndx = SHN_XINDEX (0xffff) and sh_link of header 0
    nsec = len(secs)
    if nsec >= 0xff00:
        secs[0] = dict(secs[0], size=nsec, link=nsec - 1)
    rows = []
    for i, s in enumerate(secs):
        rows.append(shdr(le, is64, nameoff[i], s['type'], s.get('flags', 0), s.get('addr', 0), offs[i],
                         s.get('size', len(s['data'])), s.get('link', 0), s.get('info', 0), s.get('align', 1),
                         s.get('entsize', 0)))
    img += b''.join(rows)
    img[:ehsize] = ehdr(le, is64, e_type, machine, shoff, nsec if nsec < 0xff00 else 0,
                        nsec - 1 if nsec < 0xff00 else 0xffff, phoff, len(segments))
    return bytes(img), offs


# ----------------------------------------------------------------------------- driver batching
class Batch:
    def __init__(self):
        self.reqs = []
        self.ans = None
    def add(self, req):
        self.reqs.append(req)
        return len(self.reqs) - 1
    def run(self, drv):
        self.ans = drv.batch(self.reqs)
    def __getitem__(self, h):
        return self.ans[h]


def ok(v):
    return ['ok', v]


def is_err(v):
    return isinstance(v, list) and len(v) == 2 and v[0] == 'err'


def entsize_of(is64, rela):
    return (24 if rela else 16) if is64 else (12 if rela else 8)


def entry_items(r):
    """a parsed Container as [[name, value], ...] in parse order"""
    return [[k, v] for k, v in r.entry.items()]


# ----------------------------------------------------------------------------- generators
# supported (type, width) per machine and flavour, used only to aim the generator
SUP = {
    3: {False: [(0, 4), (1, 4), (2, 4)]},
    62: {True: [(0, 8), (1, 8), (2, 4), (10, 4), (11, 4)]},
    40: {False: [(2, 4)]},
    183: {True: [(257, 8), (258, 4), (261, 4)]},
    8: {False: [(0, 4), (2, 4)], True: [(0, 4), (2, 4), (18, 8)]},
    21: {True: [(1, 4), (26, 4), (38, 8)]},
    22: {True: [(4, 4), (5, 4), (22, 8)]},
    258: {True: [(0, 4), (1, 4), (2, 8), (47, 1), (48, 2), (50, 4), (51, 8), (52, 1), (53, 2), (55, 4), (56, 8),
                 (99, 4), (109, 8)]},
}
NATURAL_CLASS = {3: [False], 62: [True, True, False], 40: [False], 183: [True], 8: [False, True], 21: [True],
                 22: [True, True, False], 258: [True, True, False]}
NATURAL_LE = {3: [True], 62: [True], 40: [True, True, False], 183: [True, True, False], 8: [True, False],
              21: [True, False], 22: [False], 258: [True]}


def _rand_val(rng, bits):
    m = 1 << bits
    c = rng.randrange(8)
    if c == 0:
        return rng.choice([0, 1, m - 1, m // 2, m // 2 - 1, m // 2 + 1])
    if c == 1:
        return rng.randrange(256)
    if c == 2:
        return m - 1 - rng.randrange(min(m, 4096))
    return rng.randrange(m)


def _rand_signed(rng, bits):
    h = 1 << (bits - 1)
    c = rng.randrange(8)
    if c == 0:
        return rng.choice([0, 1, -1, -h, h - 1, -h + 1])
    if c in (1, 2):
        return rng.randrange(-300, 300)
    return rng.randrange(-h, h)


def gen_entry(rng, is64, mips64, rela):
    if mips64:
        typ = _rand_val(rng, 8)
        sym = _rand_val(rng, 32)
    elif is64:
        typ = _rand_val(rng, 32)
        sym = _rand_val(rng, 32)
    else:
        typ = _rand_val(rng, 8)
        sym = _rand_val(rng, 24)
    off = _rand_val(rng, 64 if is64 else 32)
    add = _rand_signed(rng, 64 if is64 else 32) if rela else 0
    ex = [_rand_val(rng, 8) for _ in range(3)] if mips64 else [0, 0, 0]
    return [off, sym, typ, add] + ex


def gen_tables(ctx, cases):
    rng = ctx.rng
    reps = ctx.scale(2, 12)
    for le in (True, False):
        for is64 in (True, False):
            for em in (EM['X64'] if is64 else EM['X86'], EM['MIPS'], EM['ARM']):
                for rela in (True, False):
                    mips64 = is64 and em == EM['MIPS']
                    for n in [0, 1, 2, 3, 7] + [rng.randint(4, 40) for _ in range(reps)]:
                        ents = [gen_entry(rng, is64, mips64, rela) for _ in range(n)]
                        gap = bytes(rng.randrange(1, 256) for _ in range(rng.choice([0, 1, 3, 7])))
                        via = rng.choice(['section', 'section', 'raw'])
                        slack = rng.randrange(entsize_of(is64, rela)) if via == 'raw' else 0
                        cases.append(('table', [le, is64, em, rela, ents, gap, via, slack]))
    for le in (True, False):
        for is64 in (True, False):
            for em in (EM['X64'], EM['MIPS']):
                for rela in (True, False):
                    good = entsize_of(is64, rela)
                    for es in (good, good + 1, good - 4, 0, entsize_of(is64, not rela)):
                        cases.append(('relsec_entsize', [le, is64, em, rela, es]))


def gen_relr_words(rng, is64, n, lead_anchor=True):
    bits = 64 if is64 else 32
    ws = []
    for i in range(n):
        c = rng.randrange(12)
        if (i == 0 and lead_anchor) or c < 3:
            # anchor: even, small enough that the following bitmaps do not leave the address space
            ws.append(rng.randrange(0, 1 << (bits - 8)) & ~1)
        elif c == 3:
            ws.append(1)                                  # empty bitmap
        elif c == 4:
            ws.append((1 << bits) - 1)                    # all ones
        elif c == 5:
            ws.append(3)                                  # bit 1 only
        elif c == 6:
            ws.append((1 << (bits - 1)) | 1)              # top bit only
        elif c == 7:
            ws.append((1 << rng.randrange(1, bits)) | 1)  # one bit
        else:
            ws.append(rng.getrandbits(bits) | 1)
    return ws


def gen_relr(ctx, cases):
    rng = ctx.rng
    reps = ctx.scale(25, 250)
    for le in (True, False):
        for is64 in (True, False):
            bits = 64 if is64 else 32
            fixed = [[], [0x1000], [0x1000, 3], [0x1000, (1 << bits) - 1], [0x1000, (1 << (bits - 1)) | 1],
                     [0x1000, 1], [0x1000, 1, 3], [0x1000, 5, 7, 9], [0x1000, 3, 0x2000, 3], [0, 3],
                     [0x1000, (1 << bits) - 1, (1 << bits) - 1, (1 << bits) - 1],
                     [3], [1], [(1 << bits) - 1, 0x1000], [0x1000, 0x2000, 0x3000],
                     [(1 << bits) - 2, 3],                 # address overflow
                     [(1 << bits) - 8 * (bits // 8), (1 << bits) - 1]]
            for ws in fixed:
                cases.append(('relr', [le, is64, ws, 'section', bits // 8]))
            for _ in range(reps):
                n = rng.choice([1, 2, 3, 4, 6, 10, 30])
                ws = gen_relr_words(rng, is64, n, lead_anchor=rng.random() < 0.93)
                cases.append(('relr', [le, is64, ws, rng.choice(['section', 'section', 'dyn']), bits // 8]))
            cases.append(('relr', [le, is64, [0x1000, 3], 'section', bits // 4]))     # wrong sh_entsize


def gen_apply_case(rng, em, force=None):
    is64 = rng.choice(NATURAL_CLASS.get(em, [True, False]))
    le = rng.choice(NATURAL_LE.get(em, [True, False]))
    flavs = SUP.get(em, {True: [], False: []})
    rela = rng.choice(sorted(flavs.keys()))
    wrong_flavour = force == 'flavour' or (force is None and rng.random() < 0.04)
    if wrong_flavour:
        rela = not rela
    sup = flavs.get(rela) or [t for f in flavs.values() for t in f] or [(1, 4), (2, 4)]
    mips64 = is64 and em == EM['MIPS']
    L = rng.choice([8, 9, 12, 16, 24, 33, 64])
    data = bytes(rng.getrandbits(8) for _ in range(L))
    nsyms = rng.choice([1, 2, 3, 5])
    bits = 64 if is64 else 32
    symvals = [0] + [_rand_val(rng, bits) for _ in range(nsyms - 1)]
    if force == 'sym0':
        symvals[0] = rng.randrange(1, 1 << bits)
    n = rng.choice([0, 1, 1, 2, 3, 4, 6])
    if force in ('type', 'symidx', 'oob', 'compound', 'flavour'):
        n = max(n, 1)
    bad_at = rng.randrange(n) if n else -1
    ents = []
    prev = None
    for i in range(n):
        typ, w = rng.choice(sup)
        if typ > 255 and not is64:
            typ, w = typ & 0xff, 4
        c = rng.randrange(6)
        if prev is not None and c == 0:
            off = min(max(prev + rng.randrange(-7, 8), 0), max(L - w, 0))      # overlapping
        elif c == 1:
            off = 0
        elif c == 2:
            off = max(L - w, 0)                                                  # last possible
        else:
            off = rng.randrange(0, max(L - w, 0) + 1)
        if typ == 0:
            off = min(off, max(L - 8, 0))
        prev = off
        sym = rng.randrange(nsyms)
        add = _rand_signed(rng, bits) if rela else 0
        ex = [0, 0, 0]
        if i == bad_at:
            if force == 'type' or (force is None and rng.random() < 0.05):
                typ = rng.choice([t for t in (3, 4, 5, 6, 7, 9, 12, 19, 28, 100, 200, 255) if t not in [x for x, _ in sup]])
            if force == 'symidx' or (force is None and rng.random() < 0.05):
                sym = nsyms + rng.choice([0, 1, 100])
            if force == 'oob':
                off = rng.choice([L - w + 1, L, L + 5, (1 << bits) - 1]) if L - w + 1 >= 0 else L
            if force == 'compound' and mips64:
                ex = rng.choice([[0, 0, 1], [0, 2, 0], [3, 0, 0], [1, 1, 1]])
        ents.append([off, sym, typ, add] + ex)
    return le, is64, rela, data, symvals, ents


def gen_apply(ctx, cases):
    rng = ctx.rng
    reps = ctx.scale(45, 500)
    machines = [3, 62, 40, 183, 8, 8, 21, 22, 258, 258]
    for em in machines:
        for _ in range(reps):
            le, is64, rela, data, symvals, ents = gen_apply_case(rng, em)
            name = ('.rela' if rela else '.rel') + '.debug_info'
            rsecs = [[name, 4 if rela else 9, rela, ents, 1]]
            v = rng.randrange(14)
            if v == 0:      # a non-relocation section with the conventional name first: must be skipped
                rsecs.insert(0, ['.rela.debug_info', 1, True, [], 1])
            elif v == 1:    # relocations of another section first
                le2, is642, rela2, d2, sv2, e2 = gen_apply_case(rng, em)
                rsecs.insert(0, ['.rela.debug_line' if rela else '.rel.debug_line', 4 if rela else 9, rela,
                                 [e[:1] + [0] + e[2:] for e in ents], 3])
            elif v == 2:    # no relocation section at all
                rsecs = []
            elif v == 3:    # both flavours present (out of domain)
                rsecs.append([('.rel' if rela else '.rela') + '.debug_info', 9 if rela else 4, not rela, [], 1])
            elif v == 4:    # unconventional name, linked by sh_info only (out of domain)
                rsecs[0][0] = '.rela_dbg'
            relocate = rng.random() < 0.85
            via = rng.choice(['dwarfinfo', 'dwarfinfo', 'handler'])
            gap = bytes(rng.randrange(1, 256) for _ in range(rng.choice([0, 1, 3, 8])))
            cases.append(('apply', [em, le, is64, relocate, via, data, symvals, rsecs, gap]))
        for force in ('type', 'symidx', 'flavour', 'oob', 'compound', 'sym0'):
            for _ in range(ctx.scale(3, 20)):
                le, is64, rela, data, symvals, ents = gen_apply_case(rng, em, force)
                name = ('.rela' if rela else '.rel') + '.debug_info'
                cases.append(('apply', [em, le, is64, True, rng.choice(['dwarfinfo', 'handler']), data, symvals,
                                        [[name, 4 if rela else 9, rela, ents, 1]], b'\xa5']))
    # machines outside the property's list (drift only), and MIPS n32 R_MIPS_64
    for em in (EM['SPARC'], EM['BPF'], EM['RISCV'], 0x1234):
        for _ in range(ctx.scale(4, 20)):
            le, is64, rela, data, symvals, ents = gen_apply_case(rng, em)
            name = ('.rela' if rela else '.rel') + '.debug_info'
            cases.append(('apply', [em, le, is64, True, 'dwarfinfo', data, symvals, [[name, 4 if rela else 9, rela, ents, 1]], b'']))


def gen_dyn(ctx, cases):
    rng = ctx.rng
    reps = ctx.scale(12, 120)
    for le in (True, False):
        for is64 in (True, False):
            for em in (EM['X64'] if is64 else EM['X86'], EM['MIPS']):
                mips64 = is64 and em == EM['MIPS']
                for _ in range(reps):
                    tables = []
                    for kind in ('REL', 'RELA', 'RELR', 'JMPREL'):
                        if rng.random() < 0.55:
                            if kind == 'RELR':
                                tables.append([kind, False, gen_relr_words(rng, is64, rng.choice([0, 1, 2, 5]))])
                            else:
                                rela = {'REL': False, 'RELA': True}.get(kind, rng.random() < 0.5)
                                n = rng.choice([0, 1, 2, 5])
                                tables.append([kind, rela, [gen_entry(rng, is64, mips64, rela) for _ in range(n)]])
                    quirk = rng.choice(['none'] * 6 + ['after_null', 'dup', 'bad_ent', 'missing_sz', 'unmapped', 'zero_ptr'])
                    via = rng.choice(['segment', 'section'])
                    order = rng.randrange(1 << 16)
                    cases.append(('dyn', [le, is64, em, tables, quirk, via, order]))


def gen_history(rng, count):
    """a history of calls on ONE table object: [['start'], ['next', g, how], ['close', g, how], ['num'], ['get', n],
    ['iter']].  g = generator number in creation order; how = 'next' | 'for' (resumed by next(g) or by a for loop
    left with break) resp. 'close' | 'del' (g.close() or the last reference dropped).  A quarter of the histories
    first fill the RELR memo; half then make a walk that is suspended or abandoned after 0..3 items; then come
    random calls.  count only aims the indices."""
    h = []
    live = []          # generators the harness still holds
    ngen = 0
    if rng.random() < 0.25:                # the memo (RELR) filled before anything else
        h.append(rng.choice([['num'], ['get', rng.randrange(count) if count else 0]]))
    if rng.random() < 0.5:
        h.append(['start'])
        live.append(0)
        ngen = 1
        for _ in range(rng.choice([0, 1, 1, 2, 3])):
            h.append(['next', 0, rng.choice(['next', 'next', 'for'])])
        c = rng.randrange(3)
        if c < 2:
            h.append(['close', 0, 'close' if c == 0 else 'del'])
            if c == 1:
                live.remove(0)
    for _ in range(rng.choice([1, 2, 3, 4, 6, 9])):
        c = rng.randrange(16)
        if c < 2 and ngen < 4:
            h.append(['start'])
            live.append(ngen)
            ngen += 1
        elif c < 7 and live:
            h.append(['next', rng.choice(live), rng.choice(['next', 'next', 'for'])])
        elif c < 9 and live:
            g = rng.choice(live)
            how = rng.choice(['close', 'del'])
            h.append(['close', g, how])
            if how == 'del':
                live.remove(g)
        elif c < 11:
            h.append(['num'])
        elif c < 14:
            q = rng.randrange(20)
            if q == 0:
                n = -rng.randint(1, count + 2)                 # Python list / file offset semantics: out of domain
            elif q == 1:
                n = count + rng.randrange(3)                    # past the end
            else:
                n = rng.randrange(count) if count else 0
            h.append(['get', n])
        else:
            h.append(['iter'])
    return h


def _relr_count(ws, is64):
    return sum(1 if w & 1 == 0 else bin(w >> 1).count('1') for w in ws)


def gen_hist(ctx, cases):
    rng = ctx.rng
    reps = ctx.scale(40, 400)
    for le in (True, False):
        for is64 in (True, False):
            bits = 64 if is64 else 32
            fixed = [[0x1000, (1 << bits) - 1, 0x5555 | 1, 0x9000, 7], [0x1000], [], [0x2000, 1], [3, 0x1000]]
            for i in range(reps):
                if i < len(fixed):
                    ws = fixed[i]
                else:
                    ws = gen_relr_words(rng, is64, rng.choice([1, 2, 3, 4, 6, 10]), lead_anchor=rng.random() < 0.95)
                cases.append(('relr_hist', [le, is64, ws, rng.choice(['section', 'section', 'table']),
                                            gen_history(rng, _relr_count(ws, is64))]))
    reps = ctx.scale(5, 40)
    for le in (True, False):
        for is64 in (True, False):
            for em in (EM['X64'] if is64 else EM['X86'], EM['MIPS'], EM['ARM']):
                for rela in (True, False):
                    mips64 = is64 and em == EM['MIPS']
                    for n in [0, 1] + [rng.randint(2, 12) for _ in range(reps)]:
                        ents = [gen_entry(rng, is64, mips64, rela) for _ in range(n)]
                        gap = bytes(rng.randrange(1, 256) for _ in range(rng.choice([0, 1, 3, 7])))
                        via = rng.choice(['section', 'section', 'raw'])
                        slack = rng.randrange(entsize_of(is64, rela)) if via == 'raw' else 0
                        cases.append(('rel_hist', [le, is64, em, rela, ents, gap, via, slack, gen_history(rng, n)]))


def gen_apply_seq(ctx, cases):
    """get_dwarf_info() called several times on ONE ELFFile object: calls = [[relocate flag, via], ...]; via =
    'dwarfinfo' (get_dwarf_info) or 'handler' (RelocationHandler on a copy of section.data()).  REL flavours (the
    in-place addend makes a second application visible) are drawn twice as often."""
    rng = ctx.rng
    reps = ctx.scale(10, 100)
    fixed = [[True, True], [True, False], [False, True], [False, False, True], [True, True, True], [True, False, True]]
    for em in [3, 3, 40, 40, 8, 8, 62, 183, 21, 22, 258]:
        for i in range(reps):
            le, is64, rela, data, symvals, ents = gen_apply_case(rng, em)
            if i % 2 == 0 and not ents:      # at least one relocation in every other case
                le, is64, rela, data, symvals, ents = gen_apply_case(rng, em, 'oob' if i % 10 == 8 else 'sym0' if i % 10 == 6 else None)
            flags = fixed[i] if i < len(fixed) else [rng.random() < 0.6 for _ in range(rng.choice([2, 2, 3, 4]))]
            calls = [[f, 'dwarfinfo' if rng.random() < 0.8 else 'handler'] for f in flags]
            name = ('.rela' if rela else '.rel') + '.debug_info'
            rsecs = [[name, 4 if rela else 9, rela, ents, 1]] if rng.random() < 0.93 else []
            gap = bytes(rng.randrange(1, 256) for _ in range(rng.choice([0, 1, 3, 8])))
            cases.append(('apply_seq', [em, le, is64, calls, data, symvals, rsecs, gap]))


def zero_entry(rng, is64, rela):
    """R_*_NONE against symbol 0 at offset 0: r_offset == 0 and r_info == 0 (for MIPS64 every sub-field 0); a RELA
    entry may still carry an addend"""
    add = rng.choice([0, 0, _rand_signed(rng, 64 if is64 else 32)]) if rela else 0
    return [0, 0, 0, add, 0, 0, 0]


def with_zero_entries(rng, is64, mips64, rela, where):
    """an entry list holding all-zero entries at the named places"""
    body = [gen_entry(rng, is64, mips64, rela) for _ in range(rng.randint(2, 6))]
    z = lambda: zero_entry(rng, is64, rela)
    if where == 'only':
        return [z()]
    if where == 'first':
        return [z()] + body
    if where == 'last':
        return body + [z()]
    if where == 'middle':
        k = rng.randint(1, len(body) - 1)
        return body[:k] + [z()] + body[k:]
    if where == 'run':
        k = rng.randint(0, len(body))
        return body[:k] + [z(), z(), z()] + body[k:]
    return [z()] + body[:1] + [z()] + body[1:] + [z()]          # 'several'


def gen_zero_entries(ctx, cases):
    """all-zero entries are entries: tables (section / raw), histories on one object, dynamic tables"""
    rng = ctx.rng
    places = ['only', 'first', 'middle', 'last', 'run', 'several']
    for le in (True, False):
        for is64 in (True, False):
            for em in (EM['X64'] if is64 else EM['X86'], EM['MIPS'], EM['ARM']):
                mips64 = is64 and em == EM['MIPS']
                for rela in (True, False):
                    for i, where in enumerate(places):
                        for _ in range(ctx.scale(1, 6)):
                            ents = with_zero_entries(rng, is64, mips64, rela, where)
                            gap = bytes(rng.randrange(1, 256) for _ in range(rng.choice([0, 1, 3, 7])))
                            via = rng.choice(['section', 'section', 'raw'])
                            slack = rng.randrange(entsize_of(is64, rela)) if via == 'raw' else 0
                            cases.append(('table', [le, is64, em, rela, ents, gap, via, slack]))
                            if i % 2 == (1 if rela else 0):
                                h = gen_history(rng, len(ents)) + [['iter'], ['num']] + \
                                    [['get', j] for j in range(len(ents))]
                                cases.append(('rel_hist', [le, is64, em, rela, ents, gap, via, slack, h]))
            for em in (EM['X64'] if is64 else EM['X86'], EM['MIPS']):
                mips64 = is64 and em == EM['MIPS']
                for _ in range(ctx.scale(3, 20)):
                    tables = []
                    for kind in ('REL', 'RELA', 'JMPREL'):
                        if rng.random() < 0.75:
                            rela = {'REL': False, 'RELA': True}.get(kind, rng.random() < 0.5)
                            tables.append([kind, rela, with_zero_entries(rng, is64, mips64, rela, rng.choice(places))])
                    cases.append(('dyn', [le, is64, em, tables, 'none', rng.choice(['segment', 'section']),
                                          rng.randrange(1 << 16)]))


def gen_dyn_overlap(ctx, cases):
    """the main REL/RELA table and the JMPREL table of the same flavour as index ranges [m0,m1) and [j0,j1) of ONE run
    of entries in the file: [DT_REL[A], +DT_REL[A]SZ) contains / abuts / partially overlaps / equals / lies inside
    [DT_JMPREL, +DT_PLTRELSZ).  Each table is what its own tags say."""
    rng = ctx.rng
    for le in (True, False):
        for is64 in (True, False):
            for em in (EM['X64'] if is64 else EM['X86'], EM['MIPS']):
                mips64 = is64 and em == EM['MIPS']
                for rela in (True, False):
                    for shape in ('main_contains_tail', 'main_contains_middle', 'main_contains_head', 'abuts',
                                  'jmprel_first_abuts', 'partial', 'partial_rev', 'equal', 'jmprel_contains_main',
                                  'disjoint'):
                        for _ in range(ctx.scale(1, 5)):
                            n = rng.randint(4, 9)
                            a, b = sorted(rng.sample(range(1, n), 2))
                            m, j = {
                                'main_contains_tail': ((0, n), (a, n)),
                                'main_contains_middle': ((0, n), (a, b)),
                                'main_contains_head': ((0, n), (0, a)),
                                'abuts': ((0, a), (a, n)),
                                'jmprel_first_abuts': ((a, n), (0, a)),
                                'partial': ((0, b), (a, n)),
                                'partial_rev': ((a, n), (0, b)),
                                'equal': ((0, n), (0, n)),
                                'jmprel_contains_main': ((a, b), (0, n)),
                                'disjoint': ((0, a), (b, n)),
                            }[shape]
                            if rng.random() < 0.3:
                                ents = with_zero_entries(rng, is64, mips64, rela, 'several')
                                ents = (ents + [gen_entry(rng, is64, mips64, rela) for _ in range(n)])[:n]
                            else:
                                ents = [gen_entry(rng, is64, mips64, rela) for _ in range(n)]
                            cases.append(('dyn_overlap', [le, is64, em, rela, ents, list(m), list(j), shape,
                                                          rng.choice(['segment', 'section']), rng.randrange(1 << 16)]))


def gen_apply_many(ctx, cases):
    """relocatable objects with about 0xff00 section headers (filler SHT_NULL headers before or after the real
    sections): below the threshold e_shnum holds the count, from 0xff00 on e_shnum = 0 and the count is sh_size of
    header 0.  The relocation section must be found wherever it sits."""
    rng = ctx.rng
    plan = [(0xff00 + rng.choice([0, 0, rng.randrange(1, 300)]), rng.choice(['before', 'after']))]
    plan += [(0xff00, 'before'), (0xff00 + 17, 'after')] * ctx.scale(0, 1)
    plan += [(rng.choice([0xff00, 0xff01, 0xffff, 0x10000, 0x10000 + rng.randrange(1, 500), 0xfeff]),
              rng.choice(['before', 'after'])) for _ in range(ctx.scale(0, 9))] + [(0xfeff, 'before')] * ctx.scale(0, 1)
    for total, place in plan:
        em = rng.choice([3, 40, 8, 62, 183, 258])
        for _ in range(20):
            le, is64, rela, data, symvals, ents = gen_apply_case(rng, em)
            if ents:
                break
        name = ('.rela' if rela else '.rel') + '.debug_info'
        # total = null + 3 debug + 1 reloc + symtab + strtab + filler + shstrtab
        cases.append(('apply_many', [em, le, is64, total - 8, place, True, rng.choice(['dwarfinfo', 'handler']),
                                     data, symvals, [[name, 4 if rela else 9, rela, ents, 1]]]))


def _sym_vals(symvals):
    """symbol table entries are st_value, or [st_value, st_info type, st_info bind, st_shndx]"""
    return [v if isinstance(v, int) else v[0] for v in symvals]


def gen_apply_symtypes(ctx, cases):
    """S is the symbol's st_value whatever its type / binding / section: symbols of every STT_* (FUNC, OBJECT, SECTION,
    TLS, GNU_IFUNC, processor specific), odd values (ARM Thumb functions have bit 0 set), local/global/weak"""
    rng = ctx.rng
    reps = ctx.scale(12, 120)
    for em in [40, 40, 40, 3, 62, 183, 8, 21, 22, 258]:
        for _ in range(reps):
            for _try in range(10):
                le, is64, rela, data, symvals, ents = gen_apply_case(rng, em)
                if ents and len(symvals) > 1:
                    break
            bits = 64 if is64 else 32
            syms = [symvals[0]]
            for v in symvals[1:]:
                c = rng.randrange(6)
                if c == 0:
                    v |= 1
                elif c == 1:
                    v = rng.choice([(1 << bits) - 1, 0x8001, 1, 0x10001])
                typ = rng.choice([2, 2, 2, 0, 1, 3, 4, 6, 10, 13])       # FUNC thrice as often
                syms.append([v, typ, rng.choice([0, 1, 2]), rng.choice([1, 2, 0xfff1, 0])])
            ents = [[e[0], rng.randrange(1, len(syms)) if rng.random() < 0.8 else e[1]] + e[2:] for e in ents]
            name = ('.rela' if rela else '.rel') + '.debug_info'
            gap = bytes(rng.randrange(1, 256) for _ in range(rng.choice([0, 1, 3])))
            cases.append(('apply', [em, le, is64, True, rng.choice(['dwarfinfo', 'handler']), data, syms,
                                    [[name, 4 if rela else 9, rela, ents, 1]], gap]))


# machines outside the property's list for which the library has no recipe at all (certified per case by the
# driver: model_no_family): every relocation of their debug sections must be REJECTED, never skipped
OTHER_MACHINES = [2, 4, 5, 6, 7, 10, 15, 18, 19, 20, 20, 23, 36, 42, 43, 45, 50, 53, 75, 83, 88, 92, 93, 94, 105, 106,
                  113, 135, 140, 164, 185, 189, 195, 224, 243, 243, 244, 251, 252, 0, 1, 0x1234, 0xfeba, 0xffff, 9, 11]


def gen_apply_unlisted(ctx, cases):
    rng = ctx.rng
    for em in OTHER_MACHINES:
        for _ in range(ctx.scale(2, 12)):
            le, is64, rela, data, symvals, ents = gen_apply_case(rng, em, rng.choice([None, None, None, 'symidx']))
            if not ents and rng.random() < 0.8:
                ents = [[rng.randrange(0, max(len(data) - 8, 1)), rng.randrange(len(symvals)),
                         rng.choice([1, 2, 3, 10, 21, 57, 255]), _rand_signed(rng, 32) if rela else 0, 0, 0, 0]]
            name = ('.rela' if rela else '.rel') + '.debug_info'
            relocate = rng.random() < 0.9
            cases.append(('apply', [em, le, is64, relocate, rng.choice(['dwarfinfo', 'handler']), data, symvals,
                                    [[name, 4 if rela else 9, rela, ents, 1]], b'']))


def gen_apply_link(ctx, cases):
    """a stripped file whose .gnu_debuglink names a separate RELOCATABLE debug file (foo.ko -> foo.ko.debug):
    get_dwarf_info(relocate_dwarf_sections=flag) with both flags; shape = 'linked' | 'own' (the file has its own
    .debug_info as well: the link is not followed) | 'badcrc'"""
    rng = ctx.rng
    for em in [62, 62, 3, 40, 183, 8, 258, 21, 22]:
        for _ in range(ctx.scale(4, 40)):
            for _try in range(10):
                le, is64, rela, data, symvals, ents = gen_apply_case(rng, em)
                if ents:
                    break
            name = ('.rela' if rela else '.rel') + '.debug_info'
            shape = rng.choice(['linked'] * 6 + ['own', 'badcrc'])
            fname = rng.choice(['a', 'ab', 'abc', 'mod.ko.debug', 'x/y.debug', 'libfoo-1.2.so.dbg'])
            for flag in (True, False):
                cases.append(('apply_link', [em, le, is64, flag, data, symvals, [[name, 4 if rela else 9, rela, ents, 1]],
                                             shape, fname]))


def gen_apply_two(ctx, cases):
    """two debug sections of ONE object, each with its own relocation section, whose sh_link name DIFFERENT symbol
    tables (.symtab and .dynsym / a second SHT_SYMTAB) holding different values at the same indices: S is the value in
    the table the relocation section links to.  Loaded by one get_dwarf_info() call or by ONE RelocationHandler used
    for both sections in either order.  Sometimes the second table is shorter and an index valid in the first one is
    out of range for it (must be rejected); sometimes both sections share one table."""
    rng = ctx.rng
    for em in [62, 62, 3, 40, 183, 8, 21, 22, 258]:
        for _ in range(ctx.scale(6, 60)):
            A = B = None
            for _try in range(60):
                c = gen_apply_case(rng, em)
                if not c[5] or len(c[4]) < 2:
                    continue
                if A is None:
                    A = c
                elif c[:3] == A[:3]:
                    B = c
                    break
            if B is None:
                continue
            le, is64, rela, dataA, symsA, entsA = A
            _, _, _, dataB, symsB, entsB = B
            shape = rng.choice(['own', 'own', 'own', 'shorter', 'shorter', 'shared'])
            entsA = [list(e) for e in entsA]
            entsB = [list(e) for e in entsB]
            # both sections name the same indices (what a per-index memo would confuse)
            for e in entsB:
                e[1] = rng.randrange(len(symsB))
            if shape == 'shorter':
                symsA = symsA + [_rand_val(rng, 64 if is64 else 32) for _ in range(len(symsB) + 1 - len(symsA))] \
                    if len(symsA) <= len(symsB) else symsA
                k = len(symsB)                       # valid in A, out of range in B
                entsA[0][1] = k
                entsB[rng.randrange(len(entsB))][1] = k
            else:
                j = rng.randrange(1, min(len(symsA), len(symsB)))
                entsA[0][1] = j
                entsB[0][1] = j
            cases.append(('apply_two', [em, le, is64, rela, rng.choice(['dwarfinfo', 'dwarfinfo', 'handlerAB', 'handlerBA']),
                                        dataA, symsA, entsA, dataB, symsB, entsB, shape, rng.choice([2, 11]),
                                        bytes(rng.randrange(1, 256) for _ in range(rng.choice([0, 1, 5])))]))


def gen(ctx):
    cases = []
    gen_tables(ctx, cases)
    gen_relr(ctx, cases)
    gen_apply(ctx, cases)
    gen_dyn(ctx, cases)
    gen_hist(ctx, cases)
    gen_apply_seq(ctx, cases)
    gen_zero_entries(ctx, cases)
    gen_dyn_overlap(ctx, cases)
    gen_apply_many(ctx, cases)
    gen_apply_symtypes(ctx, cases)
    gen_apply_unlisted(ctx, cases)
    gen_apply_link(ctx, cases)
    gen_apply_two(ctx, cases)
    return draw_stream_kinds(ctx, cases)


def draw_stream_kinds(ctx, cases):
    """the kind of stream object each image is handed to the library as (60% BytesIO, the rest over real files,
    warm / small-buffer / positioned-at-end files, mmap, gzip, decoy descriptor), drawn from a generator of its own
    so that the cases themselves do not depend on it; kept in the abstract as a trailing ['@stream', kind]"""
    import random
    from tools.lib.streams import draw_kind
    r = random.Random(ctx.rng.getrandbits(48))
    out = []
    for kind, a in cases:
        sk = draw_kind(r)
        out.append((kind, list(a) + [['@stream', sk]] if sk != 'bytesio' else a))
    return out


# ----------------------------------------------------------------------------- evaluation
_S = None          # the Streams() of the running evaluate()


def _stream(data, sk='bytesio'):
    """the bytes as the stream kind sk (tools/lib/streams.py): same bytes, another kind of object"""
    return _S.open(data, sk) if _S is not None and sk != 'bytesio' else io.BytesIO(data)


def _stream_bytes(st):
    st.seek(0)
    return st.read()


def _open(img, sk='bytesio'):
    from elftools.elf.elffile import ELFFile
    return ELFFile(_stream(img, sk))


def split_stream_kind(a):
    """abstract inputs may end with ['@stream', kind]: the kind of stream object the image is handed over as"""
    if a and isinstance(a[-1], (list, tuple)) and len(a[-1]) == 2 and a[-1][0] == '@stream':
        return list(a[:-1]), a[-1][1]
    return a, 'bytesio'


def _read_late(objs, item):
    """the fields of Relocation objects handed out earlier, read now"""
    out = []
    for r in objs:
        try:
            out.append(item(r))
        except Exception as e:      # noqa: every exception class is an observation
            out.append(['err', type(e).__name__])
    return out


def _late_anomaly(held, given, item, close):
    """A returned entry is an answer already given: the objects in held (whose fields read `given` when they were
    handed out, or were never looked at) must read the same after the stream is closed.  [] when they do, else one
    extra element for the implementation's answer (which then differs from the reference)."""
    try:
        close()
    except Exception as e:          # noqa
        return [['close-failed', type(e).__name__]]
    late = _read_late(held, item)
    return [] if late == given else [['read-after-close-differs', late]]


def _table_result(tab):
    return [bool(tab.is_RELA()), tab.num_relocations(), [entry_items(r) for r in tab.iter_relocations()]]


def _sec_desc(name, typ, off, size, link, entsize):
    return [name.encode(), typ, off, size, link, entsize]


class _Case:
    pass


def evaluate(ctx, cases):
    global _S
    from tools.lib.streams import Streams
    _S = Streams(prefix='pv-c08-streams-')
    try:
        _evaluate(ctx, cases)
    finally:
        _S.close()
        _S = None


def _evaluate(ctx, cases):
    drv = ctx.driver
    b1 = Batch()
    work = []
    # ---------------- pass 1: encode records through the Coq spec
    for kind, a in cases:
        w = _Case()
        w.full = a
        a, w.sk = split_stream_kind(a)
        w.kind, w.a = kind, a
        if kind == 'table':
            le, is64, em, rela, ents, gap, via, slack = a
            mips64 = is64 and em == EM['MIPS']
            w.h_enc = b1.add(['enc_table', le, is64, mips64, rela, ents])
            w.h_wf = b1.add(['rents_wf', is64, mips64, rela, ents])
            w.h_view = b1.add(['spec_view', is64, mips64, rela, ents])
        elif kind == 'relr':
            le, is64, ws, via, entsize = a
            w.h_enc = b1.add(['enc_relr', le, is64, ws])
            w.h_wf = b1.add(['relr_wf', is64, ws])
            w.h_spec = b1.add(['relr_spec', is64, ws])
        elif kind == 'relr_hist':
            le, is64, ws, via, hist = a
            w.h_enc = b1.add(['enc_relr', le, is64, ws])
            w.h_wf = b1.add(['relr_wf', is64, ws])
            w.h_spec = b1.add(['spec_hist_relr', is64, ws, hist])
            w.h_hok = b1.add(['hist_ok', False, 0, hist])
        elif kind == 'rel_hist':
            le, is64, em, rela, ents, gap, via, slack, hist = a
            mips64 = is64 and em == EM['MIPS']
            w.h_enc = b1.add(['enc_table', le, is64, mips64, rela, ents])
            w.h_wf = b1.add(['rents_wf', is64, mips64, rela, ents])
            w.h_spec = b1.add(['spec_hist_rel', is64, mips64, rela, ents, hist])
            w.h_hok = b1.add(['hist_ok', True, len(ents), hist])
        elif kind in ('apply', 'apply_seq', 'apply_many', 'apply_link'):
            if kind == 'apply':
                em, le, is64, relocate, via, data, symvals, rsecs, gap = a
            elif kind == 'apply_many':
                em, le, is64, nfill, place, relocate, via, data, symvals, rsecs = a
            elif kind == 'apply_link':
                em, le, is64, relocate, data, symvals, rsecs, shape, fname = a
            else:
                em, le, is64, calls, data, symvals, rsecs, gap = a
            mips64 = is64 and em == EM['MIPS']
            w.h_rs = [b1.add(['enc_table', le, is64, mips64, r[2], r[3]]) for r in rsecs]
            w.h_rwf = [b1.add(['rents_wf', is64, mips64, r[2], r[3]]) for r in rsecs]
            w.h_syms = [b1.add(['enc_sym', le, is64, 0, v]) if isinstance(v, int) else
                        b1.add(['enc_sym_t', le, is64, 0, v[0], v[1], v[2], v[3]]) for v in symvals]
        elif kind == 'apply_two':
            em, le, is64, rela, via, dataA, symsA, entsA, dataB, symsB, entsB, shape, st2, gap = a
            mips64 = is64 and em == EM['MIPS']
            w.h_rs = [b1.add(['enc_table', le, is64, mips64, rela, e]) for e in (entsA, entsB)]
            w.h_rwf = [b1.add(['rents_wf', is64, mips64, rela, e]) for e in (entsA, entsB)]
            w.h_syms = [[b1.add(['enc_sym', le, is64, 0, v]) for v in sy] for sy in (symsA, symsB)]
        elif kind == 'dyn_overlap':
            le, is64, em, rela, ents, m, j, shape, via, order = a
            mips64 = is64 and em == EM['MIPS']
            w.h_enc = b1.add(['enc_table', le, is64, mips64, rela, ents])
            w.h_wf = b1.add(['rents_wf', is64, mips64, rela, ents])
            w.h_vm = b1.add(['spec_view', is64, mips64, rela, ents[m[0]:m[1]]])
            w.h_vj = b1.add(['spec_view', is64, mips64, rela, ents[j[0]:j[1]]])
        elif kind == 'dyn':
            le, is64, em, tables, quirk, via, order = a
            mips64 = is64 and em == EM['MIPS']
            w.h_tabs = []
            for k, rela, items in tables:
                if k == 'RELR':
                    w.h_tabs.append((b1.add(['enc_relr', le, is64, items]), b1.add(['relr_wf', is64, items]),
                                     b1.add(['relr_spec', is64, items])))
                else:
                    w.h_tabs.append((b1.add(['enc_table', le, is64, mips64, rela, items]),
                                     b1.add(['rents_wf', is64, mips64, rela, items]),
                                     b1.add(['spec_view', is64, mips64, rela, items])))
        work.append(w)
    b1.run(drv)

    # ---------------- assemble images, pass 2 requests
    b2 = Batch()
    for w in work:
        kind, a = w.kind, w.a
        if kind == 'table':
            le, is64, em, rela, ents, gap, via, slack = a
            tbl = b1[w.h_enc]
            name = ('.rela' if rela else '.rel') + '.foo'
            styp = (4 if rela else 9) if via == 'section' else 1
            secs = [dict(name='.foo', type=1, data=b'\x11' * 5),
                    dict(name=name, type=styp, data=tbl + bytes((7 * i + 3) % 251 + 1 for i in range(slack)),
                         link=0, info=1, entsize=entsize_of(is64, rela))]
            w.img, w.offs = build_elf(le, is64, em, 1, secs, gap=gap)
            w.size = len(tbl) + slack
            w.h_model = b2.add(['model_table', le, is64, em, rela, w.img, w.offs[2], w.size])
            w.h_num = b2.add(['model_num', le, is64, em, rela, w.size])
        elif kind == 'rel_hist':
            le, is64, em, rela, ents, gap, via, slack, hist = a
            tbl = b1[w.h_enc]
            name = ('.rela' if rela else '.rel') + '.foo'
            styp = (4 if rela else 9) if via == 'section' else 1
            secs = [dict(name='.foo', type=1, data=b'\x11' * 5),
                    dict(name=name, type=styp, data=tbl + bytes((7 * i + 3) % 251 + 1 for i in range(slack)),
                         link=0, info=1, entsize=entsize_of(is64, rela))]
            w.img, w.offs = build_elf(le, is64, em, 1, secs, gap=gap)
            w.size = len(tbl) + slack
            w.h_model = b2.add(['model_hist_rel', le, is64, em, rela, w.img, w.offs[2], w.size, hist])
        elif kind == 'relr_hist':
            le, is64, ws, via, hist = a
            data = b1[w.h_enc]
            if via == 'section':
                secs = [dict(name='.relr.dyn', type=SHT['RELR'], data=data, entsize=8 if is64 else 4)]
                w.img, w.offs = build_elf(le, is64, EM['X64'] if is64 else EM['X86'], 3, secs, gap=b'\x5a\x5b\x5c')
                w.off = w.offs[1]
            else:
                w.img, w.off = b'\x33' * 5 + data + b'\x77' * 3, 5
            w.h_model = b2.add(['model_hist_relr', le, is64, w.img, w.off, len(data), 8 if is64 else 4, hist])
        elif kind == 'relsec_entsize':
            le, is64, em, rela, es = a
            secs = [dict(name='.rela.foo' if rela else '.rel.foo', type=4 if rela else 9, data=b'\0' * 48, entsize=es)]
            w.img, w.offs = build_elf(le, is64, em, 1, secs)
            w.h_model = b2.add(['model_relsec_check', le, is64, em, rela, es])
        elif kind == 'relr':
            le, is64, ws, via, entsize = a
            data = b1[w.h_enc]
            if via == 'section':
                secs = [dict(name='.relr.dyn', type=SHT['RELR'], data=data, entsize=entsize)]
                w.img, w.offs = build_elf(le, is64, EM['X64'] if is64 else EM['X86'], 3, secs, gap=b'\x5a\x5b\x5c')
                w.off = w.offs[1]
            else:
                w.img, w.off = data + b'\x77' * 3, 0
            w.h_model = b2.add(['model_relr', le, is64, w.img, w.off, len(data), entsize])
        elif kind in ('apply', 'apply_seq', 'apply_many', 'apply_link'):
            k0 = 0          # index shift of the real sections (filler headers in front of them)
            if kind == 'apply':
                em, le, is64, relocate, via, data, symvals, rsecs, gap = a
            elif kind == 'apply_link':
                em, le, is64, relocate, data, symvals, rsecs, shape, fname = a
                gap = b'\x42'
            elif kind == 'apply_many':
                em, le, is64, nfill, place, relocate, via, data, symvals, rsecs = a
                gap = b''
                k0 = nfill if place == 'before' else 0
            else:
                em, le, is64, calls, data, symvals, rsecs, gap = a
                relocate = True
            symdata = b''.join(b1[h] for h in w.h_syms)
            nr = len(rsecs)
            symidx = 4 + nr + k0
            secs = [dict(name='.debug_info', type=1, data=data),
                    dict(name='.debug_abbrev', type=1, data=b'\x01\x11\x00\x00\x00\x00'),
                    dict(name='.debug_line', type=1, data=bytes((i * 37 + 11) % 256 for i in range(len(data))))]
            for r, h in zip(rsecs, w.h_rs):
                secs.append(dict(name=r[0], type=r[1], data=b1[h], link=symidx, info=r[4] + k0 if r[4] else 0,
                                 entsize=entsize_of(is64, r[2]) if r[1] in (4, 9) else 0))
            secs.append(dict(name='.symtab', type=2, data=symdata, link=symidx + 1, info=1, entsize=24 if is64 else 16))
            secs.append(dict(name='.strtab', type=3, data=b'\0'))
            if kind == 'apply_many':
                filler = [dict(name='', type=0, data=b'')] * nfill
                secs = filler + secs if place == 'before' else secs + filler
            w.img, w.offs = build_elf(le, is64, em, 1, secs, gap=gap)
            full = [dict(name='', type=0, data=b'')] + secs
            descs = [_sec_desc(s['name'], s['type'], w.offs[i], len(s['data']), s.get('link', 0), s.get('entsize', 0))
                     for i, s in enumerate(full)]
            descs.append(_sec_desc('.shstrtab', 3, w.offs[-1], 0, 0, 0))
            if kind == 'apply_many':
                nsec = len(descs)
                if nsec >= 0xff00:
                    descs[0] = _sec_desc('', 0, 0, nsec, nsec - 1, 0)       # header 0 as build_elf wrote it
                e_shoff = len(w.img) - nsec * (64 if is64 else 40)
                w.nsec = nsec
                w.h_model = b2.add(['model_read_dwarf_file', le, is64, em, w.img, e_shoff, nsec if nsec < 0xff00 else 0,
                                    descs, 1 + k0, relocate])
            elif kind == 'apply_link':
                import binascii
                crc = binascii.crc32(w.img) & 0xffffffff
                if shape == 'badcrc':
                    crc ^= 0x10
                link = fname.encode() + b'\0'
                link += b'\0' * ((-len(link)) % 4) + _pk(le, 'I', crc)
                own = bytes((i * 29 + 5) % 256 for i in range(11))
                msecs = [dict(name='.text', type=1, data=b'\x90' * 8), dict(name='.gnu_debuglink', type=1, data=link)]
                if shape == 'own':
                    msecs.insert(1, dict(name='.debug_info', type=1, data=own))
                    msecs.append(dict(name='.debug_abbrev', type=1, data=b'\x01\x11\x00\x00\x00\x00'))
                w.main, moffs = build_elf(le, is64, em, 2, msecs, gap=b'\x07')
                mfull = [dict(name='', type=0, data=b'')] + msecs
                mdescs = [_sec_desc(s['name'], s['type'], moffs[i], len(s['data']), 0, 0) for i, s in enumerate(mfull)]
                w.own = own
                w.h_model = b2.add(['model_dwarf_link', True, shape == 'own', shape != 'badcrc',
                                    [le, is64, em, w.img, descs, 1], [le, is64, em, w.main, mdescs, 2], relocate])
            elif kind == 'apply':
                w.h_model = b2.add(['model_read_dwarf', le, is64, em, w.img, descs, 1, relocate])
                w.h_nofam = b2.add(['model_no_family', em]) if em not in SUP else None
            else:
                w.h_model = b2.add(['model_dwarf_seq', le, is64, em, w.img, descs, 1, [c[0] for c in calls]])
            # the relocation section the gABI designates: type REL/RELA with sh_info = index of .debug_info
            target = [r for r in rsecs if r[1] in (4, 9) and r[4] == 1]
            w.conventional = (len(target) <= 1 and
                              all(r[0] == ('.rela' if r[1] == 4 else '.rel') + '.debug_info' and r[2] == (r[1] == 4)
                                  for r in target) and
                              all(b1[h] == 1 for h in w.h_rwf))
            w.target = target[0] if len(target) == 1 else None
            if w.target is not None and relocate:
                w.h_spec = b2.add(['spec_apply', le, is64, em, w.target[2], _sym_vals(symvals), data, w.target[3]])
                w.h_wf = b2.add(['apply_wf', is64, em, w.target[2], _sym_vals(symvals), data, w.target[3]])
            else:
                w.h_spec = w.h_wf = None
        elif kind == 'apply_two':
            em, le, is64, rela, via, dataA, symsA, entsA, dataB, symsB, entsB, shape, st2, gap = a
            rt, rn, es = (4, '.rela', entsize_of(is64, True)) if rela else (9, '.rel', entsize_of(is64, False))
            symB = 6 if shape == 'shared' else 7
            secs = [dict(name='.debug_info', type=1, data=dataA),                                            # 1
                    dict(name='.debug_abbrev', type=1, data=b'\x01\x11\x00\x00\x00\x00'),                  # 2
                    dict(name='.debug_line', type=1, data=dataB),                                            # 3
                    dict(name=rn + '.debug_info', type=rt, data=b1[w.h_rs[0]], link=6, info=1, entsize=es),   # 4
                    dict(name=rn + '.debug_line', type=rt, data=b1[w.h_rs[1]], link=symB, info=3, entsize=es),  # 5
                    dict(name='.symtab', type=2, data=b''.join(b1[h] for h in w.h_syms[0]), link=8, info=1,
                         entsize=24 if is64 else 16),                                                        # 6
                    dict(name='.dynsym' if st2 == 11 else '.symtab2', type=st2,
                         data=b''.join(b1[h] for h in w.h_syms[1]), link=8, info=1, entsize=24 if is64 else 16),  # 7
                    dict(name='.strtab', type=3, data=b'\0')]                                                # 8
            w.img, w.offs = build_elf(le, is64, em, 1, secs, gap=gap)
            full = [dict(name='', type=0, data=b'')] + secs
            descs = [_sec_desc(s['name'], s['type'], w.offs[i], len(s['data']), s.get('link', 0), s.get('entsize', 0))
                     for i, s in enumerate(full)]
            descs.append(_sec_desc('.shstrtab', 3, w.offs[-1], 0, 0, 0))
            usedB = symsA if shape == 'shared' else symsB
            w.h_model = [b2.add(['model_read_dwarf', le, is64, em, w.img, descs, i, True]) for i in (1, 3)]
            w.h_spec = [b2.add(['spec_apply', le, is64, em, rela, sy, d, e])
                        for sy, d, e in ((symsA, dataA, entsA), (usedB, dataB, entsB))]
            w.h_wf = [b2.add(['apply_wf', is64, em, rela, sy, d, e])
                      for sy, d, e in ((symsA, dataA, entsA), (usedB, dataB, entsB))]
        elif kind == 'dyn':
            _assemble_dyn(w, b1, b2)
    b2.run(drv)

    # ---------------- run the implementation, compare
    for w in work:
        kind, a = w.kind, w.a
        ctx.bump('kind', kind)
        ctx.bump('stream_kind', w.sk)
        if w.sk != 'bytesio':
            ctx.bump('stream_kind_by_case', '%s:%s' % (kind, w.sk))
        if kind == 'table':
            _eval_table(ctx, w, b1, b2)
        elif kind == 'relsec_entsize':
            le, is64, em, rela, es = a
            impl = impl_call(lambda: ok(1 if _open(w.img, w.sk).get_section(1) is not None else 0))
            m = b2[w.h_model]
            ctx.record(kind, w.full, impl=impl, spec=m, model=m, in_domain=False, nontrivial=True)
        elif kind == 'relr':
            _eval_relr(ctx, w, b1, b2)
        elif kind == 'relr_hist':
            _eval_relr_hist(ctx, w, b1, b2)
        elif kind == 'rel_hist':
            _eval_rel_hist(ctx, w, b1, b2)
        elif kind == 'apply':
            _eval_apply(ctx, w, b1, b2)
        elif kind == 'apply_seq':
            _eval_apply_seq(ctx, w, b1, b2)
        elif kind == 'apply_many':
            _eval_apply_many(ctx, w, b1, b2)
            w.img = None
        elif kind == 'apply_link':
            _eval_apply_link(ctx, w, b1, b2)
        elif kind == 'apply_two':
            _eval_apply_two(ctx, w, b1, b2)
        elif kind == 'dyn':
            _eval_dyn(ctx, w, b1, b2, drv)
        elif kind == 'dyn_overlap':
            _eval_dyn_overlap(ctx, w, b1, drv)


def _eval_table(ctx, w, b1, b2):
    from elftools.elf.relocation import RelocationTable
    le, is64, em, rela, ents, gap, via, slack = w.a
    def run():
        elf = _open(w.img, w.sk)
        if via == 'section':
            tab = elf.get_section_by_name(('.rela' if rela else '.rel') + '.foo')
            assert type(tab).__name__ == 'RelocationSection'
        else:
            tab = RelocationTable(elf, w.offs[2], w.size, rela)
        res = _table_result(tab)
        # random access agrees with iteration
        got = [entry_items(tab.get_relocation(i)) for i in range(len(ents))]
        if got != res[2]:
            res.append(['get-differs-from-iteration', got])
        # entries collected first and looked at only after the file is closed ("with open(...)" idiom), through
        # iteration and through get_relocation
        held = list(tab.iter_relocations()) + [tab.get_relocation(i) for i in range(tab.num_relocations())]
        return ok(res + _late_anomaly(held, res[2] + res[2], entry_items, elf.stream.close))
    impl = impl_call(run)
    m = b2[w.h_model]
    model = ok([int(rela), b2[w.h_num], m[1]]) if m[0] == 'ok' else m
    spec = ok([int(rela), len(ents), b1[w.h_view]])
    ctx.bump('entries', len(ents) if len(ents) < 8 else '8+')
    ctx.bump('config', '%s%d%s%s' % ('LE' if le else 'BE', 64 if is64 else 32, '-mips' if em == 8 else '', '-rela' if rela else '-rel'))
    ctx.record('table', w.full, impl=impl, spec=spec, model=model, in_domain=b1[w.h_wf] == 1,
               nontrivial=len(ents) > 0)


def _relr_table(img, off, size, le, is64, entsize, sk='bytesio'):
    """a bare RelrRelocationTable, as Dynamic.get_relocation_tables builds it: an elffile with stream + structs"""
    from elftools.elf.relocation import RelrRelocationTable
    from elftools.elf.structs import ELFStructs
    class FakeElf:
        pass
    fe = FakeElf()
    fe.stream = _stream(img, sk)
    fe.structs = ELFStructs(little_endian=le, elfclass=64 if is64 else 32)
    fe.structs.create_basic_structs()
    fe.structs.create_advanced_structs(None, None, None)
    return RelrRelocationTable(fe, off, size, entsize)


def run_history(tab, hist, item, close=None):
    """perform the calls of hist on the one table object tab; one answer per call, in the driver's shape.
    An exception ends the call that raised it, not the history.  With close: every Relocation object the history
    handed out is kept and read again after the stream has been closed (an extra element in the answers if any
    reads differently by then)."""
    gens = []
    out = []
    held, given = [], []
    def keep(r):
        v = item(r)
        held.append(r)
        given.append(v)
        return v
    def keep_all(it):
        objs = list(it)             # collected first, looked at afterwards
        return [keep(r) for r in objs]
    for op in hist:
        t = op[0]
        try:
            if t == 'start':
                gens.append(tab.iter_relocations())
                a = 'unit'
            elif t == 'next':
                g = gens[op[1]]
                if op[2] == 'for':
                    a = 'stop'
                    for r in g:
                        a = ['item', keep(r)]
                        break
                else:
                    a = ['item', keep(next(g))]
            elif t == 'close':
                if op[2] == 'del':
                    gens[op[1]] = None        # last reference dropped: CPython finalises the generator now
                else:
                    gens[op[1]].close()
                a = 'unit'
            elif t == 'num':
                a = ['int', tab.num_relocations()]
            elif t == 'get':
                a = ['item', keep(tab.get_relocation(op[1]))]
            else:
                a = ['list', keep_all(tab.iter_relocations())]
        except StopIteration:
            a = 'stop'
        except Exception as e:      # noqa: every exception class is an observation
            a = ['err', type(e).__name__]
        out.append(a)
    if close is not None:
        try:
            fresh = list(tab.iter_relocations())                 # objects nobody looks at before the close
            twin = [item(r) for r in tab.iter_relocations()]     # what they must read (a walk of its own)
        except Exception:           # noqa: reported by the history itself where it matters
            fresh, twin = [], []
        out += _late_anomaly(held + fresh, given + twin, item, close)
    return out


def _hist_bumps(ctx, hist):
    abandoned = False
    open_walk = set()
    for op in hist:
        if op[0] == 'next':
            open_walk.add(op[1])
        elif op[0] in ('num', 'get', 'iter') and open_walk:
            abandoned = True
    ctx.bump('hist_len', len(hist) if len(hist) < 8 else '8+')
    ctx.bump('hist_query_after_partial_walk', int(abandoned))


def _eval_relr_hist(ctx, w, b1, b2):
    le, is64, ws, via, hist = w.a
    wsz = 8 if is64 else 4
    def run():
        if via == 'section':
            elf = _open(w.img, w.sk)
            tab = elf.get_section_by_name('.relr.dyn')
            close = elf.stream.close
        else:
            tab = _relr_table(w.img, w.off, len(ws) * wsz, le, is64, wsz, w.sk)
            close = tab._elffile.stream.close
        return ok(run_history(tab, hist, lambda r: r['r_offset'], close))
    impl = impl_call(run)
    wf, noov = b1[w.h_wf]
    lead_bitmap = bool(ws) and ws[0] & 1 == 1
    _hist_bumps(ctx, hist)
    ctx.record('relr_hist', w.full, impl=impl, spec=ok(b1[w.h_spec]), model=b2[w.h_model],
               in_domain=bool(wf and noov and not lead_bitmap and b1[w.h_hok] == 1), nontrivial=len(hist) > 1,
               key='relr-history-leading-bitmap' if lead_bitmap else 'relr-history')


def _eval_rel_hist(ctx, w, b1, b2):
    from elftools.elf.relocation import RelocationTable
    le, is64, em, rela, ents, gap, via, slack, hist = w.a
    def run():
        elf = _open(w.img, w.sk)
        if via == 'section':
            tab = elf.get_section_by_name(('.rela' if rela else '.rel') + '.foo')
            assert type(tab).__name__ == 'RelocationSection'
        else:
            tab = RelocationTable(elf, w.offs[2], w.size, rela)
        return ok(run_history(tab, hist, entry_items, elf.stream.close))
    impl = impl_call(run)
    _hist_bumps(ctx, hist)
    ctx.record('rel_hist', w.full, impl=impl, spec=ok(b1[w.h_spec]), model=ok(b2[w.h_model]),
               in_domain=bool(b1[w.h_wf] == 1 and b1[w.h_hok] == 1), nontrivial=len(hist) > 1, key='rel-history')


def _eval_relr(ctx, w, b1, b2):
    le, is64, ws, via, entsize = w.a
    def run():
        if via == 'section':
            elf = _open(w.img, w.sk)
            sec = elf.get_section_by_name('.relr.dyn')
            close = elf.stream.close
        else:
            sec = _relr_table(w.img, w.off, len(ws) * (8 if is64 else 4), le, is64, entsize, w.sk)
            close = sec._elffile.stream.close
        offs = [r['r_offset'] for r in sec.iter_relocations()]
        extra = []
        n = sec.num_relocations()
        got = [sec.get_relocation(i)['r_offset'] for i in range(n)]
        if n != len(offs) or got != offs:
            extra.append(['num-or-get-differs-from-iteration', n, got])
        held = list(sec.iter_relocations()) + [sec.get_relocation(i) for i in range(n)]
        return ok(offs + extra + _late_anomaly(held, offs + offs, lambda r: r['r_offset'], close))
    impl = impl_call(run)
    spec = b1[w.h_spec]
    wf, noov = b1[w.h_wf]
    std_ent = entsize == (8 if is64 else 4)
    lead_bitmap = bool(ws) and ws[0] & 1 == 1
    if not std_ent:
        spec = b2[w.h_model]
    ctx.bump('relr_words', len(ws) if len(ws) < 8 else '8+')
    ctx.record('relr', w.full, impl=impl, spec=spec, model=b2[w.h_model],
               in_domain=bool(wf and noov and std_ent and not lead_bitmap), nontrivial=len(ws) > 1,
               key='relr-leading-bitmap' if lead_bitmap else None)


def _eval_apply(ctx, w, b1, b2):
    from elftools.elf.relocation import RelocationHandler
    em, le, is64, relocate, via, data, symvals, rsecs, gap = w.a
    def run():
        elf = _open(w.img, w.sk)
        if via == 'dwarfinfo':
            di = elf.get_dwarf_info(relocate_dwarf_sections=relocate)
            assert di.debug_abbrev_sec.stream.getvalue() == b'\x01\x11\x00\x00\x00\x00'
            return ok(di.debug_info_sec.stream.getvalue())
        section = elf.get_section_by_name('.debug_info')
        stream = io.BytesIO()
        stream.write(section.data())
        if relocate:
            h = RelocationHandler(elf)
            rs = h.find_relocations_for_section(section)
            if rs is not None:
                h.apply_section_relocations(stream, rs)
        return ok(stream.getvalue())
    impl = impl_call(run)
    model = b2[w.h_model]
    if w.h_spec is not None:
        spec = b2[w.h_spec]
        wf = b2[w.h_wf] == 1
    else:
        spec = ok(data)
        wf = True
    if em not in SUP:
        # a machine outside the property's list for which the library has no recipe table at all: nothing is
        # supported, so every relocation must be rejected with the relocation error (spec_apply says so), and
        # nothing happens when there is nothing to apply
        wf = b2[w.h_nofam] == 1
    in_domain = bool(w.conventional and wf)
    ents = w.target[3] if w.target else []
    key = None
    t_rela = bool(w.target and w.target[2])
    if impl == ['err', 'KeyError'] and w.target and not t_rela and em in (183, 21, 22):
        key = 'rel-flavour-keyerror'                      # REL entries on a RELA-only machine: KeyError('r_addend')
    elif impl == ['err', 'KeyError'] and em == 8 and t_rela and not is64:
        key = 'mips-n32-r_mips_64-keyerror'               # ELF32 MIPS RELA R_MIPS_64: KeyError('r_type2')
    elif is_err(spec) or is_err(impl):
        tag = (spec[1] if is_err(spec) else 'ok') + '/' + (impl[1] if is_err(impl) else 'ok')
        key = 'apply-error-class-%s-em%d' % (tag, em) if em in SUP else 'apply-unsupported-machine-%s' % tag
    elif impl != spec:
        key = 'mips-rela-adds-inplace' if (em == 8 and t_rela) else 'apply-value-em%d-%s' % (em, 'rela' if t_rela else 'rel')
    ctx.bump('machine', em if em in SUP else 'other')
    if any(not isinstance(v, int) for v in symvals):
        ctx.bump('typed_symbols', 'arm' if em == 40 else 'other')
    ctx.bump('relocs', len(ents))
    ctx.bump('apply_outcome', spec[1] if is_err(spec) else 'ok')
    ctx.bump('relocate', int(relocate))
    ctx.record('apply', w.full, impl=impl, spec=spec, model=model, in_domain=in_domain,
               nontrivial=len(ents) > 0 or is_err(spec), key=key)


def _eval_apply_link(ctx, w, b1, b2):
    em, le, is64, relocate, data, symvals, rsecs, shape, fname = w.a
    asked = []
    def loader(name):
        asked.append(name)
        # what a stream_loader hands over is a freshly opened stream (the CRC is computed from where it stands:
        # dwarf_util._file_crc32 "reads the stream to the end"), so no pre-positioned kinds here
        return _stream(w.img, 'file' if w.sk in ('file_end', 'file_warm') else w.sk)
    def run():
        from elftools.elf.elffile import ELFFile
        elf = ELFFile(_stream(w.main, w.sk), stream_loader=loader)
        di = elf.get_dwarf_info(relocate_dwarf_sections=relocate)
        return ok(di.debug_info_sec.stream.getvalue())
    impl = impl_call(run)
    if shape == 'own':
        spec = ok(w.own)
    elif shape == 'badcrc':
        spec = ['err', 'ELFError']
    elif relocate:
        spec = b2[w.h_spec]
    else:
        spec = ok(data)
    wf = b2[w.h_wf] == 1 if w.h_wf is not None else True
    if shape == 'linked':
        assert asked in ([fname], [fname.encode()]), asked
    ctx.bump('debuglink', '%s-%s' % (shape, 'T' if relocate else 'F'))
    ctx.record('apply_link', w.full, impl=impl, spec=spec, model=b2[w.h_model],
               in_domain=bool(w.conventional and wf and shape != 'badcrc'), nontrivial=True, key='debuglink-relocate-flag')


def _both(via, ra, rb):
    """get_dwarf_info loads .debug_info before .debug_line and gives up at the first exception; one handler used for
    the two sections separately reports each"""
    if via == 'dwarfinfo':
        if is_err(ra):
            return ra
        if is_err(rb):
            return rb
        return ok([ra[1], rb[1]])
    return ok([ra, rb])


def _eval_apply_two(ctx, w, b1, b2):
    from elftools.elf.relocation import RelocationHandler
    em, le, is64, rela, via, dataA, symsA, entsA, dataB, symsB, entsB, shape, st2, gap = w.a
    def run():
        elf = _open(w.img, w.sk)
        if via == 'dwarfinfo':
            di = elf.get_dwarf_info(relocate_dwarf_sections=True)
            return ok([di.debug_info_sec.stream.getvalue(), di.debug_line_sec.stream.getvalue()])
        h = RelocationHandler(elf)                     # ONE handler for both sections
        res = {}
        for name in (('.debug_info', '.debug_line') if via == 'handlerAB' else ('.debug_line', '.debug_info')):
            try:
                section = elf.get_section_by_name(name)
                stream = io.BytesIO()
                stream.write(section.data())
                rs = h.find_relocations_for_section(section)
                if rs is not None:
                    h.apply_section_relocations(stream, rs)
                res[name] = ok(stream.getvalue())
            except Exception as e:      # noqa: every exception class is an observation
                res[name] = ['err', type(e).__name__]
        return ok([res['.debug_info'], res['.debug_line']])
    impl = impl_call(run)
    model = _both(via, b2[w.h_model[0]], b2[w.h_model[1]])
    spec = _both(via, b2[w.h_spec[0]], b2[w.h_spec[1]])
    wf = all(b2[h] == 1 for h in w.h_wf) and all(b1[h] == 1 for h in w.h_rwf)
    ctx.bump('two_symtabs', '%s-%s' % (shape, via))
    ctx.record('apply_two', w.full, impl=impl, spec=spec, model=model, in_domain=bool(wf), nontrivial=True,
               key='apply-two-symtabs')


def _eval_apply_many(ctx, w, b1, b2):
    from elftools.elf.relocation import RelocationHandler
    em, le, is64, nfill, place, relocate, via, data, symvals, rsecs = w.a
    def run():
        elf = _open(w.img, w.sk)
        assert elf.num_sections() == w.nsec
        if via == 'dwarfinfo':
            return ok(elf.get_dwarf_info(relocate_dwarf_sections=relocate).debug_info_sec.stream.getvalue())
        section = elf.get_section_by_name('.debug_info')
        stream = io.BytesIO()
        stream.write(section.data())
        h = RelocationHandler(elf)
        rs = h.find_relocations_for_section(section)
        if rs is not None:
            h.apply_section_relocations(stream, rs)
        return ok(stream.getvalue())
    impl = impl_call(run)
    spec, wf = b2[w.h_spec], b2[w.h_wf] == 1
    ctx.bump('many_sections', '%s-%s' % ('extended' if w.nsec >= 0xff00 else 'plain', place))
    ctx.record('apply_many', w.full, impl=impl, spec=spec, model=b2[w.h_model], in_domain=bool(w.conventional and wf),
               nontrivial=True, key='apply-many-sections')


def _eval_apply_seq(ctx, w, b1, b2):
    """answer = [result of each call, the same streams read again after the last call, file image unchanged]"""
    from elftools.elf.relocation import RelocationHandler
    em, le, is64, calls, data, symvals, rsecs, gap = w.a
    def run():
        elf = _open(w.img, w.sk)
        held = []
        first = []
        for flag, via in calls:
            try:
                if via == 'dwarfinfo':
                    di = elf.get_dwarf_info(relocate_dwarf_sections=flag)
                    stream = di.debug_info_sec.stream
                else:
                    section = elf.get_section_by_name('.debug_info')
                    stream = io.BytesIO()
                    stream.write(section.data())
                    if flag:
                        h = RelocationHandler(elf)
                        rs = h.find_relocations_for_section(section)
                        if rs is not None:
                            h.apply_section_relocations(stream, rs)
                held.append(stream)
                first.append(ok(stream.getvalue()))
            except Exception as e:      # noqa: every exception class is an observation
                held.append(None)
                first.append(['err', type(e).__name__])
        again = [ok(st.getvalue()) if st is not None else r for st, r in zip(held, first)]
        return ok([first, again, int(_stream_bytes(elf.stream) == w.img)])
    impl = impl_call(run)
    m = b2[w.h_model]
    model = ok([m[0], m[0], m[1]])
    if w.h_spec is not None:
        sp, wf = b2[w.h_spec], b2[w.h_wf] == 1
    else:
        sp, wf = ok(data), True
    per_call = [sp if flag else ok(data) for flag, via in calls]
    spec = ok([per_call, per_call, 1])
    ents = w.target[3] if w.target else []
    flags = [c[0] for c in calls]
    ctx.bump('seq_flags', ''.join('T' if f else 'F' for f in flags))
    ctx.bump('seq_flavour', ('rela' if w.target[2] else 'rel') if w.target else 'none')
    ctx.record('apply_seq', w.full, impl=impl, spec=spec, model=model, in_domain=bool(w.conventional and wf),
               nontrivial=len(ents) > 0 or is_err(sp), key='dwarf-call-sequence')


# ----------------------------------------------------------------------------- dynamic tables
DT = dict(NULL=0, PLTRELSZ=2, HASH=4, STRTAB=5, RELA=7, RELASZ=8, RELAENT=9, STRSZ=10, REL=17, RELSZ=18, RELENT=19,
          PLTREL=20, DEBUG=21, JMPREL=23, RELRSZ=35, RELR=36, RELRENT=37)
BASE_VADDR = 0x400000


def _assemble_dyn(w, b1, b2):
    """image: PT_LOAD over the whole file at BASE_VADDR (address = BASE_VADDR + file offset), .dynstr, the tables
    as PROGBITS sections, .dynamic (SHT_DYNAMIC + PT_DYNAMIC).  The tags need the table offsets and the tags sit in
    the image, so the image is laid out once with a placeholder to learn the offsets."""
    import random
    le, is64, em, tables, quirk, via, order = w.a
    rng = random.Random(order)
    wsz = 8 if is64 else 4
    dynsz = 2 * wsz
    tdata = [b1[h[0]] for h in w.h_tabs]

    def layout(dyn_bytes):
        secs = [dict(name='.dynstr', type=3, data=b'\0libx\0', flags=2)]
        for (k, rela, items), d in zip(tables, tdata):
            secs.append(dict(name='.t' + k.lower(), type=1, data=d, flags=2))
        secs.append(dict(name='.dynamic', type=6, data=dyn_bytes, link=1, entsize=dynsz, flags=3))
        nsec = len(secs)
        segs = [(1, (0, 0), BASE_VADDR), (2, nsec, 0)]
        return secs, segs

    def tags_for(offs):
        groups = []
        for i, (k, rela, items) in enumerate(tables):
            addr = BASE_VADDR + offs[2 + i]
            size = len(tdata[i])
            if k == 'REL':
                g = [(DT['REL'], addr), (DT['RELSZ'], size), (DT['RELENT'], entsize_of(is64, False))]
            elif k == 'RELA':
                g = [(DT['RELA'], addr), (DT['RELASZ'], size), (DT['RELAENT'], entsize_of(is64, True))]
            elif k == 'RELR':
                g = [(DT['RELR'], addr), (DT['RELRSZ'], size), (DT['RELRENT'], wsz)]
            else:
                g = [(DT['JMPREL'], addr), (DT['PLTRELSZ'], size), (DT['PLTREL'], DT['RELA'] if rela else DT['REL'])]
            groups.append(g)
        tags = [t for g in groups for t in g] + [(DT['STRTAB'], BASE_VADDR + offs[1]), (DT['STRSZ'], 6), (DT['DEBUG'], 0)]
        rng.shuffle(tags)
        after = []
        if quirk == 'after_null':       # tags after the terminator do not exist
            after = [(DT['REL'], BASE_VADDR + 64), (DT['RELSZ'], 16), (DT['RELENT'], entsize_of(is64, False)),
                     (DT['RELR'], BASE_VADDR + 64), (DT['RELRSZ'], wsz), (DT['RELRENT'], wsz)]
        elif quirk == 'dup' and groups:  # a second pointer tag: the first one counts
            g = rng.choice(groups)
            tags.append((g[0][0], g[0][1] + 4 * wsz))
        elif quirk == 'bad_ent' and groups:
            g = rng.choice(groups)
            tags = [(t, v + 1) if (t, v) == g[2] and t != DT['PLTREL'] else (t, v) for t, v in tags]
        elif quirk == 'missing_sz' and groups:
            g = rng.choice(groups)
            tags = [(t, v) for t, v in tags if (t, v) != g[1]]
        elif quirk == 'unmapped' and groups:
            g = rng.choice(groups)
            tags = [(t, 0x10) if (t, v) == g[0] else (t, v) for t, v in tags]
        elif quirk == 'zero_ptr' and groups:
            g = rng.choice(groups)
            tags = [(t, 0) if (t, v) == g[0] else (t, v) for t, v in tags]
        return tags + [(0, 0)] + after

    ntags = 3 * len(tables) + 3 + 1 + 6 + 2
    secs, segs = layout(b'\0' * (ntags * dynsz))
    _, offs = build_elf(le, is64, em, 3, secs, segs, gap=b'\x99')
    w.tags = tags_for(offs)
    w.h_dyn = [None] * len(w.tags)
    w.tables_offs = offs
    w.layout = layout
    w.ntags = ntags


def _dyn_image(le, is64, em, secs, segs):
    """the image with its PT_LOAD widened to cover the whole file (address = BASE_VADDR + file offset)"""
    img, offs = build_elf(le, is64, em, 3, secs, segs, gap=b'\x99')
    img = bytearray(img)
    full_load = phdr(le, is64, 1, 4, 0, BASE_VADDR, len(img), len(img))
    phoff = struct.unpack_from(('<' if le else '>') + ('Q' if is64 else 'I'), img, 32 if is64 else 28)[0]
    img[phoff:phoff + len(full_load)] = full_load
    return bytes(img), offs


def _dyn_run(img, via, order, sk='bytesio'):
    from elftools.elf.dynamic import DynamicSegment, DynamicSection
    elf = _open(img, sk)
    if via == 'segment':
        dyn = [s for s in elf.iter_segments() if isinstance(s, DynamicSegment)][0]
    else:
        dyn = elf.get_section_by_name('.dynamic')
        assert isinstance(dyn, DynamicSection)
    out = []
    held = []
    for k, t in dyn.get_relocation_tables().items():
        # a client that peeks at the first entries and stops (suspended or closed walk) before the table is
        # read: by C08_relr_history_exact / C08_rel_history_exact this changes no answer
        try:
            it = t.iter_relocations()
            for _ in range(order % 3):
                next(it, None)
            if order & 4:
                it.close()
        except Exception:       # noqa: the full read below reports the error
            pass
        if k == 'RELR':
            n = t.num_relocations()
            offs = [r['r_offset'] for r in t.iter_relocations()]
            got = [t.get_relocation(i)['r_offset'] for i in range(n)]
            row = [k, 'relr', offs]
            if n != len(offs) or got != offs:
                row.append(['num-or-get-differs-from-iteration', n, got])
            held.append((row, list(t.iter_relocations()), offs, lambda r: r['r_offset']))
        else:
            res = _table_result(t)
            # random access agrees with iteration, entry for entry
            got = [entry_items(t.get_relocation(i)) for i in range(res[1])]
            row = [k] + res
            if got != res[2]:
                row.append(['get-differs-from-iteration', got])
            held.append((row, list(t.iter_relocations()), res[2], entry_items))
        out.append(row)
    # the entries of every table, collected above and not yet looked at, read after the file is closed
    elf.stream.close()
    for row, objs, given, item in held:
        late = _read_late(objs, item)
        if late != given:
            row.append(['read-after-close-differs', late])
    return ok(out)


def _dyn_model(drv, le, is64, em, tags, img):
    """model: descriptors from the tag list, then the table models on the image"""
    desc = drv.one(['model_dyn', le, is64, em, [[t, v] for t, v in tags], [[0, BASE_VADDR, len(img)]]])
    if desc[0] != 'ok':
        return desc
    reqs = []
    for d in desc[1]:
        if d[0] == 'RELR':
            reqs.append(['model_relr', le, is64, img, d[1] if d[1] != 'none' else 0, d[2], d[3]])
        else:
            reqs += [['model_table', le, is64, em, d[3], img, d[1] if d[1] != 'none' else 0, d[2]],
                     ['model_num', le, is64, em, d[3], d[2]]]
    ans = drv.batch(reqs)
    model_out = []
    i = 0
    failed = None
    for d in desc[1]:
        if d[1] == 'none':
            failed = ['err', 'TypeError']          # None + n * entry_size
            if d[0] == 'RELR' and d[2] == 0:
                failed = None
        if d[0] == 'RELR':
            r = ans[i]; i += 1
            if failed is None and r[0] != 'ok':
                failed = r
            model_out.append([d[0], 'relr', r[1] if r[0] == 'ok' else []])
        else:
            r, n = ans[i], ans[i + 1]; i += 2
            if d[1] == 'none' and n == 0:
                failed = None
                r = ['ok', []]
            if failed is None and r[0] != 'ok':
                failed = r
            model_out.append([d[0], d[3], n, r[1] if r[0] == 'ok' else []])
    return failed if failed is not None else ok(model_out)


def _eval_dyn_overlap(ctx, w, b1, drv):
    import random
    le, is64, em, rela, ents, m, j, shape, via, order = w.a
    rng = random.Random(order)
    wsz = 8 if is64 else 4
    es = entsize_of(is64, rela)
    blob = b1[w.h_enc]
    ntags = 10

    def layout(dyn_bytes):
        secs = [dict(name='.dynstr', type=3, data=b'\0libx\0', flags=2),
                dict(name='.rel.all', type=1, data=blob, flags=2),
                dict(name='.dynamic', type=6, data=dyn_bytes, link=1, entsize=2 * wsz, flags=3)]
        return secs, [(1, (0, 0), BASE_VADDR), (2, 3, 0)]

    secs, segs = layout(b'\0' * (ntags * 2 * wsz))
    _, offs = build_elf(le, is64, em, 3, secs, segs, gap=b'\x99')
    base = BASE_VADDR + offs[2]
    main = [(DT['RELA'], base + m[0] * es), (DT['RELASZ'], (m[1] - m[0]) * es), (DT['RELAENT'], es)] if rela else \
           [(DT['REL'], base + m[0] * es), (DT['RELSZ'], (m[1] - m[0]) * es), (DT['RELENT'], es)]
    tags = main + [(DT['JMPREL'], base + j[0] * es), (DT['PLTRELSZ'], (j[1] - j[0]) * es),
                   (DT['PLTREL'], DT['RELA'] if rela else DT['REL']),
                   (DT['STRTAB'], BASE_VADDR + offs[1]), (DT['STRSZ'], 6), (DT['DEBUG'], 0)]
    rng.shuffle(tags)
    tags.append((0, 0))
    dyn_bytes = b''.join(drv.batch([['enc_dyn', le, is64, t, v] for t, v in tags]))
    secs, segs = layout(dyn_bytes)
    img, offs2 = _dyn_image(le, is64, em, secs, segs)
    assert offs2 == offs and len(dyn_bytes) == ntags * 2 * wsz
    impl = impl_call(_dyn_run, img, via, order, w.sk)
    model = _dyn_model(drv, le, is64, em, tags, img)
    spec = ok([['RELA' if rela else 'REL', int(rela), m[1] - m[0], b1[w.h_vm]],
               ['JMPREL', int(rela), j[1] - j[0], b1[w.h_vj]]])
    ctx.bump('dyn_overlap', shape)
    ctx.record('dyn_overlap', w.full, impl=impl, spec=spec, model=model, in_domain=b1[w.h_wf] == 1, nontrivial=True,
               key='dyn-overlap')


def _eval_dyn(ctx, w, b1, b2, drv):
    le, is64, em, tables, quirk, via, order = w.a
    wsz = 8 if is64 else 4
    enc = drv.batch([['enc_dyn', le, is64, t, v] for t, v in w.tags])
    dyn_bytes = b''.join(enc)
    dyn_bytes += b'\0' * (w.ntags * 2 * wsz - len(dyn_bytes))
    secs, segs = w.layout(dyn_bytes)
    img, offs = _dyn_image(le, is64, em, secs, segs)
    assert offs == w.tables_offs
    impl = impl_call(_dyn_run, img, via, order, w.sk)
    model = _dyn_model(drv, le, is64, em, w.tags, img)
    # spec: every table announced by the tags, with exactly its entries
    spec_out = []
    wf = True
    for (k, rela, items), h in zip(tables, w.h_tabs):
        pass
    order_ = {'REL': 0, 'RELA': 1, 'RELR': 2, 'JMPREL': 3}
    for (k, rela, items), h in sorted(zip(tables, w.h_tabs), key=lambda p: order_[p[0][0]]):
        if k == 'RELR':
            wfw, noov = b1[h[1]]
            sp = b1[h[2]]
            wf = wf and wfw == 1 and noov == 1 and sp[0] == 'ok'
            spec_out.append([k, 'relr', sp[1] if sp[0] == 'ok' else []])
        else:
            wf = wf and b1[h[1]] == 1
            spec_out.append([k, int(rela), len(items), b1[h[2]]])
    spec = ok(spec_out)
    in_domain = wf and quirk in ('none', 'after_null', 'dup')
    if quirk == 'dup':
        in_domain = False     # a duplicated pointer tag: the gABI allows one of each; drift only
    ctx.bump('dyn_tables', len(tables))
    ctx.bump('dyn_quirk', quirk)
    ctx.record('dyn', w.full, impl=impl, spec=spec, model=model, in_domain=bool(in_domain), nontrivial=len(tables) > 0)
