"""C08 correspondence: relocation tables, RELR expansion, debug-section relocation.

impl  = the real library on a synthesized ELF image (ELFFile over BytesIO):
        RelocationSection / RelocationTable / RelrRelocationSection / Dynamic.get_relocation_tables,
        DWARFInfo.debug_info_sec.stream after ELFFile.get_dwarf_info(relocate_dwarf_sections=...),
        RelocationHandler.apply_section_relocations on a BytesIO copy.
model = extracted Model/C08Reloc.v run on the same image bytes.
spec  = extracted Spec/C08Spec.v on the abstract input (entries, RELR words, psABI formulas).
Relocation / RELR / symbol / dynamic records are encoded by the Coq spec encoders (driver);
the ELF container (file header, section headers, program headers) is assembled here."""
import io, struct
from tools.lib.framework import impl_call

CLAIMED = False
CONFIG = {'assumptions': [
    'P (place) = r_offset: debug sections of a relocatable object have sh_addr 0; S = st_value of the referenced symbol',
    'relocation sections are found by the conventional name .rel/.rela + target name (what the library does)',
    'RELR addresses are compared as unbounded integers; streams whose addresses pass 2^wordbits are out of domain',
    'ELF container (Ehdr/Shdr/Phdr) assembled by the harness; Rel/Rela/Relr/Sym/Dyn records by the Coq spec encoders']}
LEVEL = {'text': 'Machine-checked: REL/RELA (incl. MIPS64 packed r_info) table round trips for every entry list, RELR '
                 'shifting-loop = gABI bitmap reading for every word list, every regenerated recipe of the listed '
                 'machines equals the psABI formula modulo the field width for all integers, the apply loop writes '
                 'exactly the wrapped value in file byte order and changes no other byte, error classes exact, no '
                 'relocation when disabled. Recipes, calc functions (symbolic evaluation), machine dispatch and record '
                 'layouts are regenerated from the live code; loops are hand models pinned by correspondence on '
                 'synthesized relocatable / dynamic images.',
         'design_ref': '4.8', 'technique': 'Coq proof (induction, Z.testbit, ring/lia on translated bodies) + extracted-model correspondence',
         'note': 'Trusted: Coq kernel, tools/gen symbolic evaluator, ExtrOcamlBasic extraction, harness image assembler. '
                 'No axioms. psABI tables written from the processor supplements (cross-checked with /usr/include/elf.h numbers).'}
RULE = ('cases: REL/RELA tables (both classes, byte orders, MIPS64, 0..many entries, negative addends, garbage around) read '
        'through section, raw table and dynamic tags; RELR word streams of every bit-pattern class; relocation application '
        'on synthesized relocatable images for every (machine, flavour, type) with random S/A/V, overlapping and boundary '
        'offsets, error classes, relocation on/off, via get_dwarf_info and via RelocationHandler. distinct = hash(kind, '
        'abstract); non-trivial = at least one entry/word/relocation or an error case')

# ----------------------------------------------------------------------------- ELF container assembly
SHT = dict(NULL=0, PROGBITS=1, SYMTAB=2, STRTAB=3, RELA=4, HASH=5, DYNAMIC=6, NOTE=7, NOBITS=8, REL=9, RELR=19)
EM = dict(X86=3, X64=62, ARM=40, AARCH64=183, MIPS=8, PPC64=21, S390=22, LOONGARCH=258, SPARC=2, BPF=247, RISCV=243)


def _pk(le, fmt, *v):
    return struct.pack(('<' if le else '>') + fmt, *v)


def ehdr(le, is64, e_type, machine, shoff, shnum, shstrndx, phoff=0, phnum=0, flags=0):
    ident = b'\x7fELF' + bytes([2 if is64 else 1, 1 if le else 2, 1, 0, 0]) + b'\0' * 7
    if is64:
        return ident + _pk(le, 'HHIQQQIHHHHHH', e_type, machine, 1, 0, phoff, shoff, flags, 64, 56, phnum, 64, shnum, shstrndx)
    return ident + _pk(le, 'HHIIIIIHHHHHH', e_type, machine, 1, 0, phoff, shoff, flags, 52, 32, phnum, 40, shnum, shstrndx)


def shdr(le, is64, name, typ, flags, addr, off, size, link, info, align, entsize):
    if is64:
        return _pk(le, 'IIQQQQIIQQ', name, typ, flags, addr, off, size, link, info, align, entsize)
    return _pk(le, 'IIIIIIIIII', name, typ, flags, addr, off, size, link, info, align, entsize)


def phdr(le, is64, typ, flags, off, vaddr, filesz, memsz, align=1):
    if is64:
        return _pk(le, 'IIQQQQQQ', typ, flags, off, vaddr, vaddr, filesz, memsz, align)
    return _pk(le, 'IIIIIIII', typ, off, vaddr, vaddr, filesz, memsz, flags, align)


def build_elf(le, is64, machine, e_type, sections, segments=(), gap=b''):
    """sections: list of dicts name,type,data and optional flags,addr,link,info,align,entsize,size (excluding the
    null section; .shstrtab is appended).  segments: list of (p_type, section index (1-based) or (off,size), vaddr).
    gap: garbage bytes put between pieces.  Returns (image, [file offset of each section incl. null=0])."""
    secs = [dict(name='', type=0, data=b'')] + [dict(s) for s in sections]
    names = b'\0'
    nameoff = []
    for s in secs + [dict(name='.shstrtab')]:
        nameoff.append(len(names) if s['name'] else 0)
        if s['name']:
            names += s['name'].encode() + b'\0'
    secs.append(dict(name='.shstrtab', type=3, data=names))
    ehsize = 64 if is64 else 52
    img = bytearray(b'\0' * ehsize)
    offs = []
    for s in secs:
        img += gap
        offs.append(len(img) if s is not secs[0] else 0)
        img += s['data']
    img += gap
    phoff = len(img) if segments else 0
    for seg in segments:
        typ, where, vaddr = seg[0], seg[1], seg[2]
        if isinstance(where, tuple):
            o, z = where
        else:
            o, z = offs[where], len(secs[where]['data'])
        img += phdr(le, is64, typ, 4, o, vaddr, z, z)
    img += gap
    shoff = len(img)
    for i, s in enumerate(secs):
        img += shdr(le, is64, nameoff[i], s['type'], s.get('flags', 0), s.get('addr', 0), offs[i],
                    s.get('size', len(s['data'])), s.get('link', 0), s.get('info', 0), s.get('align', 1), s.get('entsize', 0))
    img[:ehsize] = ehdr(le, is64, e_type, machine, shoff, len(secs), len(secs) - 1, phoff, len(segments))
    return bytes(img), offs


# ----------------------------------------------------------------------------- driver batching
class Batch:
    def __init__(self):
        self.reqs = []
        self.ans = None
    def add(self, req):
        self.reqs.append(req)
        return len(self.reqs) - 1
    def run(self, drv):
        self.ans = drv.batch(self.reqs)
    def __getitem__(self, h):
        return self.ans[h]


def ok(v):
    return ['ok', v]


def is_err(v):
    return isinstance(v, list) and len(v) == 2 and v[0] == 'err'


def entsize_of(is64, rela):
    return (24 if rela else 16) if is64 else (12 if rela else 8)


def entry_items(r):
    """a parsed Container as [[name, value], ...] in parse order"""
    return [[k, v] for k, v in r.entry.items()]


# ----------------------------------------------------------------------------- generators
# supported (type, width) per machine and flavour, used only to aim the generator
SUP = {
    3: {False: [(0, 4), (1, 4), (2, 4)]},
    62: {True: [(0, 8), (1, 8), (2, 4), (10, 4), (11, 4)]},
    40: {False: [(2, 4)]},
    183: {True: [(257, 8), (258, 4), (261, 4)]},
    8: {False: [(0, 4), (2, 4)], True: [(0, 4), (2, 4), (18, 8)]},
    21: {True: [(1, 4), (26, 4), (38, 8)]},
    22: {True: [(4, 4), (5, 4), (22, 8)]},
    258: {True: [(0, 4), (1, 4), (2, 8), (47, 1), (48, 2), (50, 4), (51, 8), (52, 1), (53, 2), (55, 4), (56, 8),
                 (99, 4), (109, 8)]},
}
NATURAL_CLASS = {3: [False], 62: [True, True, False], 40: [False], 183: [True], 8: [False, True], 21: [True],
                 22: [True, True, False], 258: [True, True, False]}
NATURAL_LE = {3: [True], 62: [True], 40: [True, True, False], 183: [True, True, False], 8: [True, False],
              21: [True, False], 22: [False], 258: [True]}


def _rand_val(rng, bits):
    m = 1 << bits
    c = rng.randrange(8)
    if c == 0:
        return rng.choice([0, 1, m - 1, m // 2, m // 2 - 1, m // 2 + 1])
    if c == 1:
        return rng.randrange(256)
    if c == 2:
        return m - 1 - rng.randrange(min(m, 4096))
    return rng.randrange(m)


def _rand_signed(rng, bits):
    h = 1 << (bits - 1)
    c = rng.randrange(8)
    if c == 0:
        return rng.choice([0, 1, -1, -h, h - 1, -h + 1])
    if c in (1, 2):
        return rng.randrange(-300, 300)
    return rng.randrange(-h, h)


def gen_entry(rng, is64, mips64, rela):
    if mips64:
        typ = _rand_val(rng, 8)
        sym = _rand_val(rng, 32)
    elif is64:
        typ = _rand_val(rng, 32)
        sym = _rand_val(rng, 32)
    else:
        typ = _rand_val(rng, 8)
        sym = _rand_val(rng, 24)
    off = _rand_val(rng, 64 if is64 else 32)
    add = _rand_signed(rng, 64 if is64 else 32) if rela else 0
    ex = [_rand_val(rng, 8) for _ in range(3)] if mips64 else [0, 0, 0]
    return [off, sym, typ, add] + ex


def gen_tables(ctx, cases):
    rng = ctx.rng
    reps = ctx.scale(2, 12)
    for le in (True, False):
        for is64 in (True, False):
            for em in (EM['X64'] if is64 else EM['X86'], EM['MIPS'], EM['ARM']):
                for rela in (True, False):
                    mips64 = is64 and em == EM['MIPS']
                    for n in [0, 1, 2, 3, 7] + [rng.randint(4, 40) for _ in range(reps)]:
                        ents = [gen_entry(rng, is64, mips64, rela) for _ in range(n)]
                        gap = bytes(rng.randrange(1, 256) for _ in range(rng.choice([0, 1, 3, 7])))
                        via = rng.choice(['section', 'section', 'raw'])
                        slack = rng.randrange(entsize_of(is64, rela)) if via == 'raw' else 0
                        cases.append(('table', [le, is64, em, rela, ents, gap, via, slack]))
    for le in (True, False):
        for is64 in (True, False):
            for em in (EM['X64'], EM['MIPS']):
                for rela in (True, False):
                    good = entsize_of(is64, rela)
                    for es in (good, good + 1, good - 4, 0, entsize_of(is64, not rela)):
                        cases.append(('relsec_entsize', [le, is64, em, rela, es]))


def gen_relr_words(rng, is64, n, lead_anchor=True):
    bits = 64 if is64 else 32
    ws = []
    for i in range(n):
        c = rng.randrange(12)
        if (i == 0 and lead_anchor) or c < 3:
            # anchor: even, small enough that the following bitmaps do not leave the address space
            ws.append(rng.randrange(0, 1 << (bits - 8)) & ~1)
        elif c == 3:
            ws.append(1)                                  # empty bitmap
        elif c == 4:
            ws.append((1 << bits) - 1)                    # all ones
        elif c == 5:
            ws.append(3)                                  # bit 1 only
        elif c == 6:
            ws.append((1 << (bits - 1)) | 1)              # top bit only
        elif c == 7:
            ws.append((1 << rng.randrange(1, bits)) | 1)  # one bit
        else:
            ws.append(rng.getrandbits(bits) | 1)
    return ws


def gen_relr(ctx, cases):
    rng = ctx.rng
    reps = ctx.scale(25, 250)
    for le in (True, False):
        for is64 in (True, False):
            bits = 64 if is64 else 32
            fixed = [[], [0x1000], [0x1000, 3], [0x1000, (1 << bits) - 1], [0x1000, (1 << (bits - 1)) | 1],
                     [0x1000, 1], [0x1000, 1, 3], [0x1000, 5, 7, 9], [0x1000, 3, 0x2000, 3], [0, 3],
                     [0x1000, (1 << bits) - 1, (1 << bits) - 1, (1 << bits) - 1],
                     [3], [1], [(1 << bits) - 1, 0x1000], [0x1000, 0x2000, 0x3000],
                     [(1 << bits) - 2, 3],                 # address overflow
                     [(1 << bits) - 8 * (bits // 8), (1 << bits) - 1]]
            for ws in fixed:
                cases.append(('relr', [le, is64, ws, 'section', bits // 8]))
            for _ in range(reps):
                n = rng.choice([1, 2, 3, 4, 6, 10, 30])
                ws = gen_relr_words(rng, is64, n, lead_anchor=rng.random() < 0.93)
                cases.append(('relr', [le, is64, ws, rng.choice(['section', 'section', 'dyn']), bits // 8]))
            cases.append(('relr', [le, is64, [0x1000, 3], 'section', bits // 4]))     # wrong sh_entsize


def gen_apply_case(rng, em, force=None):
    is64 = rng.choice(NATURAL_CLASS.get(em, [True, False]))
    le = rng.choice(NATURAL_LE.get(em, [True, False]))
    flavs = SUP.get(em, {True: [], False: []})
    rela = rng.choice(sorted(flavs.keys()))
    wrong_flavour = force == 'flavour' or (force is None and rng.random() < 0.04)
    if wrong_flavour:
        rela = not rela
    sup = flavs.get(rela) or [t for f in flavs.values() for t in f] or [(1, 4), (2, 4)]
    mips64 = is64 and em == EM['MIPS']
    L = rng.choice([8, 9, 12, 16, 24, 33, 64])
    data = bytes(rng.getrandbits(8) for _ in range(L))
    nsyms = rng.choice([1, 2, 3, 5])
    bits = 64 if is64 else 32
    symvals = [0] + [_rand_val(rng, bits) for _ in range(nsyms - 1)]
    if force == 'sym0':
        symvals[0] = rng.randrange(1, 1 << bits)
    n = rng.choice([0, 1, 1, 2, 3, 4, 6])
    if force in ('type', 'symidx', 'oob', 'compound', 'flavour'):
        n = max(n, 1)
    bad_at = rng.randrange(n) if n else -1
    ents = []
    prev = None
    for i in range(n):
        typ, w = rng.choice(sup)
        if typ > 255 and not is64:
            typ, w = typ & 0xff, 4
        c = rng.randrange(6)
        if prev is not None and c == 0:
            off = min(max(prev + rng.randrange(-7, 8), 0), max(L - w, 0))      # overlapping
        elif c == 1:
            off = 0
        elif c == 2:
            off = max(L - w, 0)                                                  # last possible
        else:
            off = rng.randrange(0, max(L - w, 0) + 1)
        if typ == 0:
            off = min(off, max(L - 8, 0))
        prev = off
        sym = rng.randrange(nsyms)
        add = _rand_signed(rng, bits) if rela else 0
        ex = [0, 0, 0]
        if i == bad_at:
            if force == 'type' or (force is None and rng.random() < 0.05):
                typ = rng.choice([t for t in (3, 4, 5, 6, 7, 9, 12, 19, 28, 100, 200, 255) if t not in [x for x, _ in sup]])
            if force == 'symidx' or (force is None and rng.random() < 0.05):
                sym = nsyms + rng.choice([0, 1, 100])
            if force == 'oob':
                off = rng.choice([L - w + 1, L, L + 5, (1 << bits) - 1]) if L - w + 1 >= 0 else L
            if force == 'compound' and mips64:
                ex = rng.choice([[0, 0, 1], [0, 2, 0], [3, 0, 0], [1, 1, 1]])
        ents.append([off, sym, typ, add] + ex)
    return le, is64, rela, data, symvals, ents


def gen_apply(ctx, cases):
    rng = ctx.rng
    reps = ctx.scale(45, 500)
    machines = [3, 62, 40, 183, 8, 8, 21, 22, 258, 258]
    for em in machines:
        for _ in range(reps):
            le, is64, rela, data, symvals, ents = gen_apply_case(rng, em)
            name = ('.rela' if rela else '.rel') + '.debug_info'
            rsecs = [[name, 4 if rela else 9, rela, ents, 1]]
            v = rng.randrange(14)
            if v == 0:      # a non-relocation section with the conventional name first: must be skipped
                rsecs.insert(0, ['.rela.debug_info', 1, True, [], 1])
            elif v == 1:    # relocations of another section first
                le2, is642, rela2, d2, sv2, e2 = gen_apply_case(rng, em)
                rsecs.insert(0, ['.rela.debug_line' if rela else '.rel.debug_line', 4 if rela else 9, rela,
                                 [e[:1] + [0] + e[2:] for e in ents], 3])
            elif v == 2:    # no relocation section at all
                rsecs = []
            elif v == 3:    # both flavours present (out of domain)
                rsecs.append([('.rel' if rela else '.rela') + '.debug_info', 9 if rela else 4, not rela, [], 1])
            elif v == 4:    # unconventional name, linked by sh_info only (out of domain)
                rsecs[0][0] = '.rela_dbg'
            relocate = rng.random() < 0.85
            via = rng.choice(['dwarfinfo', 'dwarfinfo', 'handler'])
            gap = bytes(rng.randrange(1, 256) for _ in range(rng.choice([0, 1, 3, 8])))
            cases.append(('apply', [em, le, is64, relocate, via, data, symvals, rsecs, gap]))
        for force in ('type', 'symidx', 'flavour', 'oob', 'compound', 'sym0'):
            for _ in range(ctx.scale(3, 20)):
                le, is64, rela, data, symvals, ents = gen_apply_case(rng, em, force)
                name = ('.rela' if rela else '.rel') + '.debug_info'
                cases.append(('apply', [em, le, is64, True, rng.choice(['dwarfinfo', 'handler']), data, symvals,
                                        [[name, 4 if rela else 9, rela, ents, 1]], b'\xa5']))
    # machines outside the property's list (drift only), and MIPS n32 R_MIPS_64
    for em in (EM['SPARC'], EM['BPF'], EM['RISCV'], 0x1234):
        for _ in range(ctx.scale(4, 20)):
            le, is64, rela, data, symvals, ents = gen_apply_case(rng, em)
            name = ('.rela' if rela else '.rel') + '.debug_info'
            cases.append(('apply', [em, le, is64, True, 'dwarfinfo', data, symvals, [[name, 4 if rela else 9, rela, ents, 1]], b'']))


def gen_dyn(ctx, cases):
    rng = ctx.rng
    reps = ctx.scale(12, 120)
    for le in (True, False):
        for is64 in (True, False):
            for em in (EM['X64'] if is64 else EM['X86'], EM['MIPS']):
                mips64 = is64 and em == EM['MIPS']
                for _ in range(reps):
                    tables = []
                    for kind in ('REL', 'RELA', 'RELR', 'JMPREL'):
                        if rng.random() < 0.55:
                            if kind == 'RELR':
                                tables.append([kind, False, gen_relr_words(rng, is64, rng.choice([0, 1, 2, 5]))])
                            else:
                                rela = {'REL': False, 'RELA': True}.get(kind, rng.random() < 0.5)
                                n = rng.choice([0, 1, 2, 5])
                                tables.append([kind, rela, [gen_entry(rng, is64, mips64, rela) for _ in range(n)]])
                    quirk = rng.choice(['none'] * 6 + ['after_null', 'dup', 'bad_ent', 'missing_sz', 'unmapped', 'zero_ptr'])
                    via = rng.choice(['segment', 'section'])
                    order = rng.randrange(1 << 16)
                    cases.append(('dyn', [le, is64, em, tables, quirk, via, order]))


def gen(ctx):
    cases = []
    gen_tables(ctx, cases)
    gen_relr(ctx, cases)
    gen_apply(ctx, cases)
    gen_dyn(ctx, cases)
    return cases
