"""C10 correspondence: answers do not depend on query history or stream position.

impl  = the answer of the real library after a call history on ONE opened file;
spec  = the stateless answer of Spec/C10Spec.v (`spec_step`, through the driver) for a file description
        tabulated from freshly opened objects by plain sequential parsing (no navigation API);
model = the answer of the state machine of Model/C10Machine.v (`step`) instantiated with the parse
        functions of that description.
Besides the answers, the abstract state of the implementation (cache lists, link fields, memo fields,
all cursors, live generator frames: private attributes are only READ) is compared with the model's
after every explored edge; a difference there is reported as model drift, never as a violation.

(i)  bounded-exhaustive: on three synthesized files (c10_build.py) breadth-first over a fixed operation
     alphabet, de-duplicated on the abstract state, every reachable state up to the depth bound x every
     operation, each state re-created by replaying its representative history on a fresh object;
(ii) long random histories on the seed binaries of /repo/test with a Disturb after every call; a failing
     history is delta-debugged to a minimal one before it is recorded."""
import bisect, dis, gc, hashlib, inspect, io, os, subprocess, sys
from tools.lib import sx
from tools.lib.streams import Streams, KINDS, draw_kind

CLAIMED = True
CONFIG = {'assumptions': [
    'file descriptions are tabulated from freshly opened objects by sequential parsing; ids stand for the '
    'full serialisation of headers, entries (tag, every attribute), line-program entries, CFI entries',
    'the file is presented to the library as a drawn stream kind (tools/lib/streams.py; file@kind in the case); '
    'a DIE is addressed as get_CU_at(u).get_DIE_from_refaddr(o); generators live in slots; the client keeps the '
    'list of its last CFI_entries()/EH_CFI_entries() call and decodes entries of that list; a decoded table is '
    'observed as its rows (register rules in row order) and reg_order',
    'supplementary_dwarfinfo is None; type units are modelled as far as iter_TUs and the lazily built '
    '_type_units_by_sig index (get_TU_by_sig8) go; the entries inside type units and DW_FORM_ref_sig8 dereference '
    'are not in the model', ]}
LEVEL = {'text': 'Machine-checked refinement of a state machine (caches, object heap with identity, link fields, memo '
                 'fields, one cursor per stream, generator frames) against a stateless reference: an invariant '
                 '(cache lists sorted, duplicate-free and parallel; every cached unit/entry/abbreviation table/line '
                 'program is the pure parse at its key; unit and entry objects unique per offset; parent/terminator '
                 'links true; memo fields equal the pure result) holds initially, and EVERY valid operation - queries, '
                 'get_parent with its ancestor search, get_decoded() of call-frame entries (memo per entry, FDEs through their '
                 'CIE), get_TU_by_sig8 over the lazily built signature index (with the unit-cache side effects of building '
                 'it), creating and resuming iter_CUs/iter_TUs/iter_DIEs/iter_children/'
                 'iter_siblings/iter_sections/iter_symbols/iter_tags, stream repositioning - returns the stateless '
                 'answer and keeps the invariant; lifted by induction to every finite history, with corollaries '
                 '(answer after any history = answer of a fresh object, repeated queries equal, generator element = '
                 'offset/index query for units, entries, sections, symbols, dynamic tags). The machine is pinned to '
                 'the code by bounded-exhaustive state exploration and long random histories with adversarial '
                 'repositioning of every stream.',
         'design_ref': '4.10', 'technique': 'Coq proof (invariant + refinement, lifted over fold_left) + '
                                            'extracted-model correspondence on call histories',
         'note': 'No theorem is partial. Two opened files are two independent machines (C10_two_objects_independent); that the '
                 'library keeps no module- or class-level state between file objects is pinned by the pair histories, and '
                 'every file description is tabulated in a fresh child process. C10_lineprog_file_entry_refuted witnesses the known finding (LineProg after '
                 'LineEntries on a program with DW_LNE_define_file); op_ok excludes exactly LineProg on such files. '
                 'Hypotheses: wf_file (units tile .debug_info, entry trees tile their units, DW_AT_sibling truthful, '
                 'distinct line-program starts), fuel_ok (model loop fuel above the size bound of the file), valid_op '
                 '(offset-exact lookups name a unit/entry start). What the bytes decode to is abstract (parse '
                 'functions of the file description); decoding itself is the subject of C04/C05/C06.'}
RULE = ('cases: (file, history, last operation); bfs = every abstract state reachable within the depth bound x every '
        'operation of the alphabet on 3 synthesized files (nine alphabets: DWARF, ELF, entries of a DWARF 2 and a DWARF 4 unit that share one abbreviation table in '
        'every order (file D), the unit map with lookups that raise between successful ones, listing the children of an inner entry and then of an ancestor two levels up '
        '(three levels deeper), walking the children of an offset-fetched entry then asking for the parent of '
        'the entry after its subtree (two levels deeper), call-frame decoding in every order '
        '(two levels deeper), interleaved iterators over the children of one entry (five levels deeper), and a type-unit generator '
        'interleaved with lookups by signature (two levels deeper)); pair = every interleaving up to depth 3 of '
        'queries on TWO files opened in one process (file A and its big-endian twin, file B and its little-endian twin), each history in a process of '
        'its own, each answer compared with the stateless answer for its file, rnd = random histories on seed binaries with a Disturb '
        'after every call (minimised when failing). distinct = hash(kind, file, history); non-trivial = history '
        'of length >= 2 or an operation that fills a cache')

# stream ids of Model/C10Types.v
SIDS = {1: 'debug_info_sec', 2: 'debug_abbrev_sec', 3: 'debug_line_sec', 4: 'debug_frame_sec', 5: 'eh_frame_sec',
        6: 'debug_str_sec', 7: 'debug_line_str_sec', 8: 'debug_str_offsets_sec', 9: 'debug_addr_sec',
        10: 'debug_loclists_sec', 11: 'debug_rnglists_sec', 12: 'debug_types_sec'}
NSTREAMS = 13
NSLOTS = 2
LOCAL_REF_FORMS = ('DW_FORM_ref1', 'DW_FORM_ref2', 'DW_FORM_ref4', 'DW_FORM_ref8', 'DW_FORM_ref', 'DW_FORM_ref_udata')
OTHER_REF_FORMS = ('DW_FORM_ref_sig8', 'DW_FORM_ref_sup4', 'DW_FORM_ref_sup8', 'DW_FORM_GNU_ref_alt')
DWARF_OPS = {'CUAt', 'CUContaining', 'TopDIE', 'DIEAt', 'DIEGlobal', 'Parent', 'FollowRef', 'LineProg', 'LineEntries',
             'CFI', 'CFIDecoded', 'TUBySig', 'NewIterTUs', 'RefetchDwarf', 'CUAtFailing', 'DIEAtOutside', 'LineEntriesFailing', 'NewIterCUs', 'NewIterDIEs', 'NewIterChildren', 'NewIterSiblings'}


# ------------------------------------------------------------------ serialisation of observed values
class Ids:
    """canonical Python value -> small int, per file"""
    def __init__(self):
        self.tab = {}
        self.names = {}
        self.name_list = []
    def of(self, v):
        i = self.tab.get(v)
        if i is None:
            i = self.tab[v] = len(self.tab) + 1
        return i
    def name(self, s):
        i = self.names.get(s)
        if i is None:
            i = self.names[s] = len(self.names) + 1
            self.name_list.append(s)
        return i
    def name_str(self, i):
        return self.name_list[i - 1] if 1 <= i <= len(self.name_list) else '\x00no-such-name-%d' % i


def ser_die(die):
    return ('die', die.tag, die.abbrev_code, die.has_children, die.size,
            tuple((k, v.form, repr(v.value), repr(v.raw_value), v.offset, v.indirection_length)
                  for k, v in die.attributes.items()))


def ser_unit(cu):
    return ('unit', cu.cu_offset, cu.cu_die_offset, tuple(sorted((k, repr(v)) for k, v in cu.header.items())),
            cu.structs.dwarf_format, cu.structs.address_size, cu.structs.dwarf_version)


def ser_tu(tu):
    return ('tu', tu.tu_offset, tu.tu_die_offset, tuple(sorted((k, repr(v)) for k, v in tu.header.items())),
            tu.structs.dwarf_format, tu.structs.address_size, tu.structs.dwarf_version)


def ser_lphdr(h):
    return ('lphdr', tuple((k, repr(v)) for k, v in h.items() if k != 'file_entry'))


def ser_lpentries(es):
    def st(s):
        if s is None:
            return None
        return (s.address, s.file, s.line, s.column, s.op_index, s.is_stmt, s.basic_block, s.end_sequence,
                s.prologue_end, s.epilogue_begin, s.isa, s.discriminator)
    return ('lpentries', tuple((e.command, e.is_extended, repr(e.args), st(e.state)) for e in es))


def ser_cfi(entries):
    out = []
    for e in entries:
        hdr = repr(getattr(e, 'header', None))
        ins = tuple((i.opcode, repr(i.args)) for i in getattr(e, 'instructions', ()))
        out.append((type(e).__name__, e.offset, hdr, ins, repr(getattr(e, 'augmentation_bytes', None)),
                    getattr(getattr(e, 'cie', None), 'offset', None), repr(getattr(e, 'lsda_pointer', None))))
    return ('cfi', tuple(out))


def ser_decoded(dec):
    """CFIEntry.get_decoded(): rows (pc, CFA rule, the register rules of the row in their order) and reg_order"""
    return ('decoded', tuple(tuple((repr(k), repr(v)) for k, v in row.items()) for row in dec.table),
            tuple(dec.reg_order))


def ser_section(sec):
    return ('section', type(sec).__name__, tuple((k, repr(v)) for k, v in sec.header.items()))


def ser_segment(seg):
    return ('segment', type(seg).__name__, tuple((k, repr(v)) for k, v in seg.header.items()))


def ser_symbol(s):
    return ('symbol', repr(s.entry))


def ser_tag(t):
    extra = tuple((a, getattr(t, a)) for a in ('needed', 'rpath', 'runpath', 'soname', 'sunw_filter') if hasattr(t, a))
    return ('tag', repr(t.entry), extra)


# ------------------------------------------------------------------ one opened file
class Opened:
    """ELFFile + the objects a client holds on to.  dwarf comes from a second ELFFile over the same bytes
    so that the ELF-level state (lazily built name map, cursor) starts untouched."""
    def __init__(self, meta, parts='DE'):
        from elftools.elf.elffile import ELFFile
        self.meta = meta
        self.elf = self.symtab = self.dyn = self.strtab = None
        self.kind = meta.get('kind', 'bytesio')
        self.S = Streams('pv-c10-')
        if 'E' in parts:
            self.elf = ELFFile(self.S.open(meta['image'], self.kind))
            self.symtab = self.elf.get_section(meta['symtab_idx']) if meta['symtab_idx'] is not None else None
            self.dyn = self.elf.get_section(meta['dyn_idx']) if meta['dyn_idx'] is not None else None
            self.strtab = self.symtab.stringtable if self.symtab is not None else None
            self.elf.stream.seek(0)
        self.dw = self.dwelf = None
        if meta['has_dwarf'] and 'D' in parts:
            if meta.get('refetch'):
                # relocatable object: the DWARFInfo comes from an ELFFile that is kept, so that get_dwarf_info() can be
                # called on it again (relocations are applied to the section copies on every call)
                from elftools.elf.elffile import ELFFile
                self.dwelf = ELFFile(self.S.open(meta['image'], self.kind))
                self.dw = self.dwelf.get_dwarf_info()
                for sid, attr in SIDS.items():
                    sec = getattr(self.dw, attr)
                    if sec is not None:
                        sec.stream.seek(0)
            else:
                self.dw = fresh_dwarf(meta)
        self.slots = [None] * NSLOTS
        self.counts = [0] * NSLOTS
        self.cfi = [None, None]          # the entry lists the client holds (.debug_frame, .eh_frame)
        self.ids = meta['ids']

    def close(self):
        """closes and deletes the temporary files of this object's streams (in the process that created them)"""
        self.S.close()

    # ---- streams
    def stream(self, sid):
        if sid == 0:
            return self.elf.stream if self.elf is not None else None
        if self.dw is None:
            return None
        sec = getattr(self.dw, SIDS[sid])
        return sec.stream if sec is not None else None

    def cursors(self):
        out = []
        for sid in range(NSTREAMS):
            st = self.stream(sid)
            out.append(st.tell() if st is not None else 0)
        return out

    # ---- answers
    def a_die(self, die):
        if die is None:
            return 'none'
        return ['die', die.cu.cu_offset, die.offset, self.ids.of(ser_die(die))]

    def a_unit(self, cu):
        return ['unit', cu.cu_offset, self.ids.of(ser_unit(cu))]

    def a_tu(self, tu):
        from elftools.dwarf.typeunit import TypeUnit
        if isinstance(tu, TypeUnit):
            return ['vals', 0, tu.tu_offset, self.ids.of(ser_tu(tu))]
        return ['vals', 1, tu.cu_offset, self.ids.of(ser_unit(tu))]      # a DWARF v5 type unit of .debug_info

    def a_section(self, sec):
        return ['vals', self.ids.name(sec.name), self.ids.of(ser_section(sec))]

    def a_symbol(self, s):
        return [self.ids.name(s.name), self.ids.of(ser_symbol(s))]

    def the_die(self, u, o):
        return self.dw.get_CU_at(u).get_DIE_from_refaddr(o)

    @staticmethod
    def ref_attr_name(die, k):
        names = [n for n, a in die.attributes.items()
                 if a.form in LOCAL_REF_FORMS or a.form == 'DW_FORM_ref_addr' or a.form in OTHER_REF_FORMS]
        return names[k]

    def do(self, op):
        try:
            return self._do(op)
        except StopIteration:
            return 'stop'
        except Exception as e:      # noqa: every exception class is an observable answer
            return ['err', type(e).__name__]

    def _do(self, op):
        k = op[0]
        dw, elf = self.dw, self.elf
        if k == 'Disturb':
            pos = op[2]
            if op[1] == 0 and self.kind == 'mmap':
                pos = min(pos, len(self.meta['image']))      # mmap refuses positions past the end of the mapping
            self.stream(op[1]).seek(pos)
            return 'done'
        if k == 'DIEAtOutside':
            return self.a_die(self.the_die(op[1], op[2]))
        if k == 'CUAtFailing':
            return self.a_unit(dw.get_CU_at(op[1]))
        if k == 'CUAt':
            return self.a_unit(dw.get_CU_at(op[1]))
        if k == 'CUContaining':
            return self.a_unit(dw.get_CU_containing(op[1]))
        if k == 'TopDIE':
            return self.a_die(dw.get_CU_at(op[1]).get_top_DIE())
        if k == 'DIEAt':
            return self.a_die(self.the_die(op[1], op[2]))
        if k == 'DIEGlobal':
            return self.a_die(dw.get_DIE_from_refaddr(op[1]))
        if k == 'Parent':
            return self.a_die(self.the_die(op[1], op[2]).get_parent())
        if k == 'FollowRef':
            d = self.the_die(op[1], op[2])
            return self.a_die(d.get_DIE_from_attribute(self.ref_attr_name(d, op[3])))
        if k == 'LineProg':
            lp = dw.line_program_for_CU(dw.get_CU_at(op[1]))
            if lp is None:
                return 'none'
            return ['vals', self.ids.of(ser_lphdr(lp.header)), len(lp.header['file_entry'])]
        if k in ('LineEntries', 'LineEntriesFailing'):
            lp = dw.line_program_for_CU(dw.get_CU_at(op[1]))
            if lp is None:
                return 'none'
            return ['vals', self.ids.of(ser_lpentries(lp.get_entries()))]
        if k == 'RefetchDwarf':
            if self.dwelf is None:
                from elftools.elf.elffile import ELFFile
                self.dwelf = ELFFile(self.S.open(self.meta['image'], self.kind))
            self.dwelf.get_dwarf_info()          # the new object is dropped: the client keeps the one it has
            return 'done'
        if k == 'ESectionTyped':
            return self.a_section(elf.get_section(op[1], type=(self.meta['shtypes'].get(op[2], 'SHT_NO_SUCH_TYPE'),)))
        if k == 'CFI':
            es = dw.EH_CFI_entries() if op[1] else dw.CFI_entries()
            self.cfi[1 if op[1] else 0] = es
            return ['vals', self.ids.of(ser_cfi(es))]
        if k == 'CFIDecoded':
            eh = 1 if op[1] else 0
            if self.cfi[eh] is None:
                self.cfi[eh] = dw.EH_CFI_entries() if eh else dw.CFI_entries()
            if op[2] < 0:
                raise IndexError(op[2])
            return ['vals', self.ids.of(ser_decoded(self.cfi[eh][op[2]].get_decoded()))]
        if k == 'TUBySig':
            return self.a_tu(dw.get_TU_by_sig8(op[1]))
        if k == 'NewIterTUs':
            self.slots[op[1]], self.counts[op[1]] = dw.iter_TUs(), 0
            return 'done'
        if k == 'NewIterCUs':
            self.slots[op[1]], self.counts[op[1]] = dw.iter_CUs(), 0
            return 'done'
        if k == 'NewIterDIEs':
            g = dw.get_CU_at(op[2]).iter_DIEs()
            self.slots[op[1]], self.counts[op[1]] = g, 0
            return 'done'
        if k == 'NewIterChildren':
            g = self.the_die(op[2], op[3]).iter_children()
            self.slots[op[1]], self.counts[op[1]] = g, 0
            return 'done'
        if k == 'NewIterSiblings':
            g = self.the_die(op[2], op[3]).iter_siblings()
            self.slots[op[1]], self.counts[op[1]] = g, 0
            return 'done'
        if k == 'NewIterSections':
            self.slots[op[1]], self.counts[op[1]] = elf.iter_sections(), 0
            return 'done'
        if k == 'NewIterSymbols':
            self.slots[op[1]], self.counts[op[1]] = self.symtab.iter_symbols(), 0
            return 'done'
        if k == 'NewIterTags':
            self.slots[op[1]], self.counts[op[1]] = self.dyn.iter_tags(), 0
            return 'done'
        if k == 'Next':
            g = self.slots[op[1]]
            if g is None:
                return 'stop'
            v = next(g)
            self.counts[op[1]] += 1
            return self.a_value(v)
        if k == 'ENumSections':
            return ['vals', elf.num_sections()]
        if k == 'ESection':
            return self.a_section(elf.get_section(op[1]))
        if k == 'ESectionByName':
            sec = elf.get_section_by_name(self.ids.name_str(op[1]))
            return 'none' if sec is None else self.a_section(sec)
        if k == 'ESegment':
            return ['vals', self.ids.of(ser_segment(elf.get_segment(op[1])))]
        if k == 'ESymbol':
            return ['vals'] + self.a_symbol(self.symtab.get_symbol(op[1]))
        if k == 'ESymbolByName':
            syms = self.symtab.get_symbol_by_name(self.ids.name_str(op[1]))
            if syms is None:
                return 'none'
            return ['vals'] + [x for s in syms for x in self.a_symbol(s)]
        if k == 'EString':
            return ['vals', self.ids.name(self.strtab.get_string(op[1]))]
        if k == 'ENumTags':
            return ['vals', self.dyn.num_tags()]
        if k == 'EGetTag':
            return ['vals', self.ids.of(ser_tag(self.dyn.get_tag(op[1])))]
        raise ValueError(op)

    def a_value(self, v):
        from elftools.dwarf.die import DIE
        from elftools.dwarf.compileunit import CompileUnit
        from elftools.dwarf.typeunit import TypeUnit
        from elftools.elf.sections import Section, Symbol
        from elftools.elf.dynamic import DynamicTag
        if v is None:
            return 'none'
        if isinstance(v, DIE):
            return self.a_die(v)
        if isinstance(v, CompileUnit):
            return self.a_unit(v)
        if isinstance(v, TypeUnit):
            return self.a_tu(v)
        if isinstance(v, Section):
            return self.a_section(v)
        if isinstance(v, Symbol):
            return ['vals'] + self.a_symbol(v)
        if isinstance(v, DynamicTag):
            return ['vals', self.ids.of(ser_tag(v))]
        return ['vals', self.ids.of(('other', repr(v)))]

    # ---- the abstract state (private attributes are read, never written)
    def die_name(self, d):
        if d is None:
            return 'none'
        ui = _index_is(self.dw._cu_cache, d.cu)
        di = _index_is(d.cu._dielist, d)
        return [ui, di]

    @staticmethod
    def hidden(obj, known):
        """containers among the attributes of a cache object that the unchanged library does not have (none there, so
        the state is the model's); a changed library that keeps more mutable state gets its states told apart, so
        that the exploration does not merge a state with a different hidden memo into one seen before"""
        try:
            extra = sorted((k, len(v)) for k, v in vars(obj).items()
                           if k not in known and isinstance(v, (list, dict, set)))
        except TypeError:
            return []
        return [['hidden', k, n] for k, n in extra]

    _DIE_ATTRS = frozenset(('attributes',))
    _CU_ATTRS = frozenset(('_dielist', '_diemap', 'header'))

    @classmethod
    def _file_table_len(cls, x, depth=0):
        """length of a file table reachable from an unknown cache value (so that states with tables of different
        length stay apart in the exploration)"""
        try:
            return len(x['file_entry'])
        except Exception:
            pass
        if depth < 3:
            if hasattr(x, 'header'):
                return cls._file_table_len(x.header, depth + 1)
            if isinstance(x, (tuple, list)):
                for y in x:
                    n = cls._file_table_len(y, depth + 1)
                    if n is not None:
                        return n
        return None

    def abs_state(self):
        dw, elf = self.dw, self.elf
        if dw is not None:
            keys = list(dw._cu_offsets_map)
            units = []
            for cu in dw._cu_cache:
                units.append([cu.cu_offset, cu.cu_die_offset, int(cu._abbrev_table is not None), list(cu._diemap),
                              [[d.offset, self.die_name(d._parent), self.die_name(d._terminator)]
                               + self.hidden(d, self._DIE_ATTRS) for d in cu._dielist]]
                             + self.hidden(cu, self._CU_ATTRS))
            abbrevs = list(dw._abbrevtable_cache.keys())
            def lp_state(off, lp):
                # a cache entry that is not a LineProgram object (a changed library) is opaque: never a crash
                try:
                    return [off, len(lp.header['file_entry']), int(lp._decoded_entries is not None)]
                except (AttributeError, KeyError, TypeError, IndexError):
                    return [off, 'opaque', type(lp).__name__, self._file_table_len(lp)]
            lines = [lp_state(off, lp) for off, lp in dw._linetable_cache.items()]
        else:
            keys, units, abbrevs, lines = [], [], [], []
        m = elf._section_name_map if elf is not None else None
        secmap = 'none' if m is None else [[self.ids.name(n), i] for n, i in m.items()]
        m = self.symtab._symbol_name_map if self.symtab is not None else None
        # only the tabulated prefix of the symbol table is known to the model (meta['num_symbols'])
        nsym = self.meta['num_symbols']
        symmap = 'none' if m is None else [[self.ids.name(n), [i for i in l if i < nsym]] for n, l in m.items()
                                          if any(i < nsym for i in l)]
        numtags = self.dyn._num_tags if self.dyn is not None else -1
        held = ['none' if es is None else [int(getattr(e, '_decoded_table', None) is not None) for e in es]
                for es in self.cfi]
        tumap = 'none'
        if dw is not None and dw._type_units_by_sig is not None:
            tumap = list(dw._type_units_by_sig.keys())
        return [keys, units, abbrevs, lines, secmap, symmap, numtags, self.cursors(),
                [self.frame_state(i) for i in range(NSLOTS)], held[0], held[1], tumap]

    def frame_state(self, slot):
        """the frame of the live generator in a slot, read from its local variables; when the generator's code does
        not have the local variables the unchanged library has (a refactoring, or a changed algorithm) the frame is
        opaque: named by the generator function and the number of elements taken so far, which still separates
        the states of the exploration; such a state then differs from the model's (model drift), never a crash"""
        try:
            return self._frame_state(slot)
        except (KeyError, AttributeError, TypeError, IndexError):
            g = self.slots[slot]
            return ['opaque', g.gi_code.co_name, self.counts[slot]]

    def _frame_state(self, slot):
        g = self.slots[slot]
        if g is None or g.gi_frame is None:
            return 'empty'
        fn = g.gi_code.co_name
        created = inspect.getgeneratorstate(g) == inspect.GEN_CREATED
        loc = g.gi_frame.f_locals
        if fn == '_parse_CUs_iter':
            return ['cus', loc['offset']]
        if fn == '_parse_TUs_iter':
            return ['tus', loc['offset']]
        if fn == 'iter_DIE_children':
            if created:
                return ['children', ['start', self.die_name(loc['die'])]]
            return ['children', ['yield', self.die_name(loc['die']), self.die_name(loc['child']), loc['cur_offset']]]
        if fn == 'iter_siblings':
            if created:
                return ['siblings', self.die_name(loc['self']), 'none']
            sib = loc['sibling']
            return ['siblings', self.die_name(loc['self']),
                    ['yield', self.die_name(loc['parent']), self.die_name(sib), sib.offset]]
        if fn == '_iter_DIE_subtree':
            chain = [g]
            while chain[-1].gi_yieldfrom is not None:
                chain.append(chain[-1].gi_yieldfrom)
            levels = []
            for lv in reversed(chain):
                l2 = lv.gi_frame.f_locals
                die = l2['die']
                if inspect.getgeneratorstate(lv) == inspect.GEN_CREATED:
                    pc = 'start'
                elif lv.gi_yieldfrom is not None:
                    c = l2['c']
                    pc = ['kids', ['yield', self.die_name(die), self.die_name(c), c.offset]]
                else:
                    pc = _yield_rank(lv)
                levels.append([self.die_name(die), pc])
            return ['subtree', levels]
        if fn == 'iter_sections':
            return ['sections', 0, 'none'] if created else ['sections', loc['i'] + 1, self.meta['num_sections']]
        if fn == 'iter_symbols':
            return ['symbols', 0, 'none'] if created else ['symbols', loc['i'] + 1, self.meta['num_symbols']]
        if fn == 'iter_tags':
            if created:
                return ['tags', 0, 0]
            return ['tags', self.counts[slot], int(loc['tag']['d_tag'] == 'DT_NULL')]
        return ['unknown', fn]


def _index_is(lst, obj):
    for i, x in enumerate(lst):
        if x is obj:
            return i
    return -1


_YIELDS = {}


def _yield_rank(gen):
    """'die' when suspended at the first `yield` of the function, 'term' at the last"""
    code = gen.gi_code
    ys = _YIELDS.get(code)
    if ys is None:
        ys = _YIELDS[code] = [i.offset for i in dis.get_instructions(code) if i.opname == 'YIELD_VALUE']
    lasti = gen.gi_frame.f_lasti
    j = min(range(len(ys)), key=lambda t: abs(ys[t] - lasti))
    return 'die' if j == 0 else ('term' if j == len(ys) - 1 else 'mid')


# ------------------------------------------------------------------ tabulating a file from fresh objects
SENT = 1 << 40


def _fresh_dw(image):
    from elftools.elf.elffile import ELFFile
    return ELFFile(io.BytesIO(image)).get_dwarf_info()


def fresh_dwarf(meta):
    """a fresh DWARFInfo over private copies of the section streams, all cursors at 0.  The first one is
    made by ELFFile.get_dwarf_info(); later ones by calling the same constructor with the same arguments
    (read back from the attributes of the first), which avoids re-reading the ELF container each time."""
    tmpl = meta.get('dw_template')
    if tmpl is None:
        dw = _fresh_dw(meta['image'])
        args = {}
        ok = True
        try:
            for pname in list(inspect.signature(type(dw).__init__).parameters)[1:]:
                v = getattr(dw, pname)
                if pname.endswith('_sec') and v is not None:
                    v = (v, v.stream.getvalue())
                args[pname] = v
        except Exception:
            ok = False
        meta['dw_template'] = (type(dw), args) if ok else False
        tmpl = meta['dw_template']
    if tmpl is False:
        dw = _fresh_dw(meta['image'])
    else:
        cls, args = tmpl
        kw = {}
        for k, v in args.items():
            if isinstance(v, tuple) and len(v) == 2 and isinstance(v[1], bytes) and k.endswith('_sec'):
                v = v[0]._replace(stream=io.BytesIO(v[1]))
            kw[k] = v
        dw = cls(**kw)
    for sid, attr in SIDS.items():
        sec = getattr(dw, attr)
        if sec is not None:
            sec.stream.seek(0)
    return dw


def _set_sentinels(dw, skip=()):
    for sid, attr in SIDS.items():
        sec = getattr(dw, attr)
        if sec is not None and sid not in skip:
            sec.stream.seek(SENT + sid)


def _read_effects(dw, skip=()):
    eff = []
    for sid, attr in SIDS.items():
        sec = getattr(dw, attr)
        if sec is not None and sid not in skip:
            p = sec.stream.tell()
            if p != SENT + sid:
                eff.append([sid, p])
    return eff


def _raw_of(die, ids, eff):
    sib = []
    a = die.attributes.get('DW_AT_sibling')
    if a is not None:
        cls = 0 if a.form in LOCAL_REF_FORMS else (1 if a.form == 'DW_FORM_ref_addr' else 2)
        sib = [cls, a.value if isinstance(a.value, int) else 0]
    refs = []
    for n, at in die.attributes.items():
        if at.form in LOCAL_REF_FORMS:
            refs.append([0, at.raw_value])
        elif at.form == 'DW_FORM_ref_addr':
            refs.append([1, at.raw_value])
        elif at.form in OTHER_REF_FORMS:
            refs.append([2, at.raw_value if isinstance(at.raw_value, int) else 0])
    st = die.attributes.get('DW_AT_stmt_list')
    stmt = [st.value] if st is not None and isinstance(st.value, int) else []
    return [die.size, int(die.is_null()), int(bool(die.has_children)), sib, refs, stmt, ids.of(ser_die(die)), eff]


def tabulate_unit_tree(image, u, ids, fresh_each, stub=False, limit=10 ** 9):
    """flat sequential walk over the entries of the unit at u (absolute parses only), tree by a stack"""
    dw = _fresh_dw(image)
    cu = dw.get_CU_at(u)
    _set_sentinels(dw, skip=(1, 2))
    top = cu.get_top_DIE()
    top_raw = _raw_of(top, ids, _read_effects(dw, skip=(1, 2)))
    abbrev_end = dw.debug_abbrev_sec.stream.tell()
    end = cu.cu_offset + cu.size
    if top.is_null():
        raise ValueError('null top DIE')
    def as_stub():
        r = list(top_raw)
        r[2] = 0
        return [top.offset, r, [], 0, _dummy_raw()], abbrev_end, 1
    if stub or not top.has_children:
        return as_stub()
    root = {'off': top.offset, 'raw': top_raw, 'kids': [], 'toff': None, 'traw': None}
    stack = [root]
    pos = top.offset + top.size
    count = 1
    while stack:
        if pos >= end:
            raise ValueError('unit %d: entries run past the end of the unit' % u)
        if fresh_each:
            dw = _fresh_dw(image)
            cu = dw.get_CU_at(u)
            cu.get_top_DIE()
        _set_sentinels(dw, skip=(1, 2))
        die = cu.get_DIE_from_refaddr(pos)
        if die.size <= 0:
            raise ValueError('unit %d: entry at %d has size %d' % (u, pos, die.size))
        raw = _raw_of(die, ids, _read_effects(dw, skip=(1, 2)))
        count += 1
        if count > limit:
            return as_stub()
        if die.is_null():
            n = stack.pop()
            n['toff'], n['traw'] = pos, raw
        else:
            n = {'off': pos, 'raw': raw, 'kids': [], 'toff': None, 'traw': None}
            stack[-1]['kids'].append(n)
            if die.has_children:
                stack.append(n)
        pos += die.size
    def conv(n):
        if n['toff'] is None:
            return [n['off'], n['raw'], [], 0, _dummy_raw()]
        return [n['off'], n['raw'], [conv(k) for k in n['kids']], n['toff'], n['traw']]
    return conv(root), abbrev_end, count


def tabulate_failing_lookups(image, units, info_size):
    """[offset, exception class, .debug_info cursor afterwards (-1: stream untouched)] for get_CU_at at offsets where
    no unit starts and where a FRESH object raises (offsets at which the call happens to parse something are left out)"""
    starts = set(u[0] for u in units)
    cands = []
    for u in units:
        cands += [u[0] + 1, u[0] + 4, u[0] + 11]
    cands += [info_size - 1, info_size - 3, info_size, info_size + 5]
    out, seen = [], set()
    for off in cands:
        if off in starts or off in seen or off < 0:
            continue
        seen.add(off)
        dw = _fresh_dw(image)
        st = dw.debug_info_sec.stream
        sentinel = 7 if info_size > 7 else 0
        st.seek(sentinel)
        try:
            dw.get_CU_at(off)
        except Exception as ex:
            cur = st.tell()
            out.append([off, type(ex).__name__, -1 if cur == sentinel else cur])
    return out


def tabulate_cfi(image, ids, eh, fresh_per_entry=60):
    """[kind, index of the entry's CIE in the list, id of its decoded table] per entry.  The first `fresh_per_entry`
    tables are each decoded on a freshly fetched list (new entry objects) on which nothing else was decoded before;
    the tables of a longer list are decoded in section order on one more fresh list (fetching a list parses the whole
    section, so per-entry lists are quadratic).  All lists come from one DWARFInfo made for this purpose only, in the
    child process that tabulates this file."""
    from elftools.dwarf.callframe import CIE, FDE
    dw = _fresh_dw(image)
    def fetch():
        return dw.EH_CFI_entries() if eh else dw.CFI_entries()
    es = fetch()
    tail = fetch() if len(es) > fresh_per_entry else None
    out = []
    for i, e in enumerate(es):
        if isinstance(e, (CIE, FDE)):
            lst = fetch() if i < fresh_per_entry else tail
            tid = ids.of(ser_decoded(lst[i].get_decoded()))
            out.append([0, 0, tid] if isinstance(e, CIE) else [1, _index_is(es, e.cie), tid])
        else:
            out.append([2, 0, 0])
    return out


def _dummy_raw():
    return [0, 1, 0, [], [], [], 0, []]


def tabulate(meta, fresh_each=True, die_budget=4000):
    """-> file description (nested lists in the order Extract/DrvC10.v g_file expects); fills meta"""
    from elftools.elf.elffile import ELFFile
    image = meta['image']
    ids = meta['ids']
    notes = meta.setdefault('notes', [])
    # ---------------- ELF
    def fresh():
        return ELFFile(io.BytesIO(image))
    e = fresh()
    meta['refetch'] = e['e_type'] == 'ET_REL'
    nsec = e.num_sections()
    shoff, shnum, shentsize = e['e_shoff'], e['e_shnum'], e['e_shentsize']
    shdr_size = e.structs.Elf_Shdr.sizeof()
    shstrndx = e.get_shstrndx()
    shstr_base = e.get_section(shstrndx)['sh_offset'] if nsec else 0
    strs = {}
    def tab_str(sec_index, base, off):
        pos = base + off
        if pos in strs:
            return
        f = fresh()
        s = f.get_section(sec_index).get_string(off)
        strs[pos] = [pos, ids.name(s), f.stream.tell()]
    shdrs = []
    symtab_idx = dyn_idx = None
    for n in range(nsec):
        f = fresh()
        sec = f.get_section(n)
        final = f.stream.tell()
        h = sec.header
        tyid = ids.of(('shtype', h['sh_type']))
        meta.setdefault('shtypes', {})[tyid] = h['sh_type']
        shdrs.append([h['sh_name'], h['sh_size'], ids.of(ser_section(sec)), [[0, final]], shoff + n * shentsize + shdr_size,
                      tyid])
        tab_str(shstrndx, shstr_base, h['sh_name'])
        if h['sh_type'] == 'SHT_SYMTAB' and symtab_idx is None:
            symtab_idx = n
        if h['sh_type'] == 'SHT_DYNAMIC' and dyn_idx is None and h['sh_size'] > 0:
            dyn_idx = n
    phoff, phentsize = e['e_phoff'], e['e_phentsize']
    phdr_size = e.structs.Elf_Phdr.sizeof()
    phdrs = []
    for n in range(e.num_segments()):
        f = fresh()
        seg = f.get_segment(n)
        phdrs.append([ids.of(ser_segment(seg)), [[0, f.stream.tell()]], phoff + n * phentsize + phdr_size])
    syms = []
    sym_base = sym_entsize = strtab_base = 0
    if symtab_idx is not None:
        st = e.get_section(symtab_idx)
        sym_base, sym_entsize = st['sh_offset'], st['sh_entsize']
        strtab_idx = st['sh_link']
        strtab_base = st.stringtable['sh_offset']
        sym_size = e.structs.Elf_Sym.sizeof()
        for n in range(min(st.num_symbols(), meta.get('max_symbols', 400))):
            s = fresh().get_section(symtab_idx).get_symbol(n)
            syms.append([s['st_name'], ids.of(ser_symbol(s)), sym_base + n * sym_entsize + sym_size])
            tab_str(strtab_idx, strtab_base, s['st_name'])
        for off in meta.get('string_offsets', []):
            tab_str(strtab_idx, strtab_base, off)
    dyns = []
    dyn_base = dyn_entsize = 0
    if dyn_idx is not None:
        f = fresh()
        dy = f.get_section(dyn_idx)
        dyn_base, dyn_entsize = dy['sh_offset'], f.structs.Elf_Dyn.sizeof()
        n = 0
        for t in dy.iter_tags():
            dyns.append([int(t.entry.d_tag == 'DT_NULL'), ids.of(ser_tag(t)), [[0, f.stream.tell()]],
                         dyn_base + n * dyn_entsize + dyn_entsize])
            n += 1
    meta.update(symtab_idx=symtab_idx, dyn_idx=dyn_idx, num_sections=nsec, num_symbols=len(syms),
                num_segments=len(phdrs), num_tags=len(dyns), strs=strs)
    # ---------------- DWARF
    units, abbrevs, lines = [], {}, {}
    cfi, ehcfi = [], []
    cfi_ents, ehcfi_ents = [], []
    tus, types_size = [], 0
    info_size = abbrev_size = 0
    meta['has_dwarf'] = False
    meta['units'] = []
    try:
        has = e.has_dwarf_info(strict=True)
    except Exception:
        has = False
    if has:
        try:
            dw = _fresh_dw(image)
            if dw.debug_info_sec is None or dw.debug_abbrev_sec is None:
                raise ValueError('no .debug_info/.debug_abbrev')
            info_size, abbrev_size = dw.debug_info_sec.size, dw.debug_abbrev_sec.size
            off = 0
            budget = die_budget
            while off < info_size:
                cu = _fresh_dw(image).get_CU_at(off) if fresh_each else dw.get_CU_at(off)
                stub = budget <= 0
                tree, abbrev_end, count = tabulate_unit_tree(image, off, ids, fresh_each, stub=stub, limit=budget)
                stub = stub or (count == 1 and tree[1][2] == 0 and tree[2] == [])
                budget -= count
                ab = cu['debug_abbrev_offset']
                dwx = _fresh_dw(image)
                abbrevs.setdefault(ab, [ab, ids.of(('abbrev', ab)), abbrev_end])
                tsig = [cu['type_signature']] if cu.header.get('unit_type') in ('DW_UT_type', 'DW_UT_split_type') else []
                units.append([off, [cu.size, ab, ids.of(ser_unit(cu)), tsig], cu.cu_die_offset, tree])
                meta['units'].append(dict(off=off, size=cu.size, die_off=cu.cu_die_offset, stub=stub, tree=tree))
                # line program
                stmt = tree[1][5]
                if stmt:
                    lo = stmt[0]
                    d2 = _fresh_dw(image)
                    c2 = d2.get_CU_at(off)
                    c2.get_top_DIE()
                    _set_sentinels(d2, skip=(3,))
                    lp = d2.line_program_for_CU(c2)
                    eff = _read_effects(d2, skip=(3,))
                    rawh = [lp.program_end_offset, len(lp.header['file_entry']), ids.of(ser_lphdr(lp.header)), eff]
                    start = lp.program_start_offset
                    try:
                        es = lp.get_entries()
                        body = [ids.of(ser_lpentries(es)),
                                sum(1 for x in es if x.is_extended and x.command == 3)]
                    except Exception as ex:
                        # an ill-formed program: decoding fails on a fresh object; the failing query (and its retry) is an
                        # operation of its own (LineEntriesFailing), LineEntries is not generated for this unit
                        body = [ids.of(('lpfail', type(ex).__name__)), 0]
                        meta.setdefault('lp_fail', {})[off] = [type(ex).__name__, d2.debug_line_sec.stream.tell()]
                    rec = [lo, rawh, start, body, d2.debug_line_sec.stream.tell()]
                    if lo in lines and lines[lo] != rec:
                        notes.append('line program %d decodes differently for two units sharing it' % lo)
                        meta['lp_disagree'] = True
                    lines.setdefault(lo, rec)
                off += cu.size
            if dw.debug_types_sec is not None:
                types_size = dw.debug_types_sec.size
                for tu in _fresh_dw(image).iter_TUs():
                    tus.append([tu.tu_offset, tu['unit_length'] + tu.structs.initial_length_field_size(),
                                tu['signature'], ids.of(ser_tu(tu)), tu.tu_die_offset])
            if dw.debug_frame_sec is not None and dw.debug_frame_sec.size > 0:
                d3 = _fresh_dw(image)
                cfi = [ids.of(ser_cfi(d3.CFI_entries())), d3.debug_frame_sec.stream.tell()]
                cfi_ents = tabulate_cfi(image, ids, False)
            if dw.eh_frame_sec is not None and dw.eh_frame_sec.size > 0:
                try:
                    d3 = _fresh_dw(image)
                    ehcfi = [ids.of(ser_cfi(d3.EH_CFI_entries())), d3.eh_frame_sec.stream.tell()]
                    ehcfi_ents = tabulate_cfi(image, ids, True)
                except Exception:
                    ehcfi, ehcfi_ents = [], []
            meta['has_dwarf'] = True
        except Exception as ex:      # the file is outside what this harness can tabulate: ELF level only
            notes.append('DWARF of %s not tabulated: %s: %s' % (meta['name'], type(ex).__name__, ex))
            units, abbrevs, lines, cfi, ehcfi, info_size, abbrev_size = [], {}, {}, [], [], 0, 0
            cfi_ents, ehcfi_ents = [], []
            tus, types_size = [], 0
            meta['units'] = []
    meta['cu_fail'] = tabulate_failing_lookups(image, units, info_size) if units else []
    meta['has_cfi'], meta['has_ehcfi'] = bool(cfi), bool(ehcfi)
    meta['cfi_ents'] = [cfi_ents, ehcfi_ents]
    meta['tus'] = tus
    meta['tu_sigs'] = [x[2] for x in tus] + [u[1][3][0] for u in units if u[1][3]]
    meta['lines'] = lines
    return [info_size, units, abbrev_size, list(abbrevs.values()), list(lines.values()), cfi, ehcfi,
            [len(image), shoff, shnum, shentsize, shstr_base], shdrs, list(strs.values()),
            [phoff, phentsize], phdrs, [sym_base, sym_entsize, strtab_base], syms, [dyn_base, dyn_entsize], dyns,
            cfi_ents, ehcfi_ents, types_size, tus]


# ------------------------------------------------------------------ files
_FILES = {}


SYNTH = ('A', 'B', 'C', 'Abe', 'Ble', 'D')


def load_file(name):
    """name: 'A'/'B'/'C'/'Abe' (synthesized; Abe = the big-endian twin of A) or a path relative to /repo/test.
    The description of a file is tabulated in a child process of its own, forked before this process has parsed
    anything with the library: the oracle is the answer of a fresh object in a fresh process, so that state the
    library keeps at module or class level (shared between file objects) cannot leak into it."""
    if name in _FILES:
        return _FILES[name]
    if '@' in name:
        # 'file@kind': the same file (same description, same ids) presented to the library as another stream kind
        # (tools/lib/streams.py); the kind is part of the case's abstract, so a replay uses it again
        base, kind = name.split('@', 1)
        meta = dict(load_file(base), kind=kind)
        meta.pop('dw_template', None)
        _FILES[name] = meta
        return meta
    import multiprocessing
    with multiprocessing.get_context('fork').Pool(1) as pool:
        meta = pool.apply(_load_file, (name,))
    _FILES[name] = meta
    return meta


def _load_file(name):
    from tools.harness import c10_build
    from tools.lib.framework import REPO
    if name in SYNTH:
        f = {'A': c10_build.file_a, 'B': c10_build.file_b, 'C': c10_build.file_c,
             'Abe': lambda: c10_build.file_a(False), 'Ble': lambda: c10_build.file_b(True),
             'D': c10_build.file_d}[name]()
        meta = dict(name=name, image=f['image'], labels=f['labels'], synthesized=True, string_offsets=[0, 1, 2])
    else:
        with open(os.path.join(str(REPO), 'test', name), 'rb') as fh:
            meta = dict(name=name, image=fh.read(), labels={}, synthesized=False, string_offsets=[0, 1])
    meta['ids'] = Ids()
    meta['ids'].name('.no-such-name')
    try:
        meta['desc'] = tabulate(meta, fresh_each=meta['synthesized'], die_budget=10 ** 9 if meta['synthesized'] else 3000)
        if meta['synthesized'] and not meta['has_dwarf']:
            raise ValueError('; '.join(meta.get('notes', [])) or 'no DWARF tabulated')
    except Exception as ex:
        if not meta['synthesized']:
            raise
        # the synthesized files are well formed by construction (c10_build.py): when plain sequential parsing of
        # one of them fails, that is reported as a failing case of its own and the file is not explored
        meta['broken'] = '%s: %s' % (type(ex).__name__, ex)
    return meta


def entries_of(tree, out=None, depth=0):
    """[(off, raw, is_null, depth)] of a tabulated tree"""
    if out is None:
        out = []
    off, raw, kids, toff, traw = tree
    out.append((off, raw, False, depth))
    for k in kids:
        entries_of(k, out, depth + 1)
    if raw[2]:
        out.append((toff, traw, True, depth + 1))
    return out


# ------------------------------------------------------------------ the operation alphabets of the exploration
def alphabet(meta, machine):
    """fixed, file-specific instantiation of the operation alphabet"""
    L = meta['labels']
    ops = []
    if machine == 'D':
        us = [u['off'] for u in meta['units']]
        ents = {u['off']: entries_of(u['tree']) for u in meta['units']}
        info_mid = ents[us[0]][3][0] + 1
        u0, ul = us[0], us[-1]
        def lab(n):
            ui, off = L[n]
            return us[ui], off
        pick = {'A': dict(deep='param', sib='member', nos='sub', withsib='struct', gref='gvar', lref='param', other='long'),
                'B': dict(deep='deep', sib='mem', nos='ns', withsib='T', gref='ptr', lref='k', other='z'),
                'C': dict(deep='c', sib='a', nos='f2', withsib='f1', gref=None, lref=None, other='d')}[meta['name']]
        ops += [['Disturb', 1, 0], ['Disturb', 1, info_mid], ['Disturb', 3, 7], ['Disturb', 4, 5]]
        ops += [['CUAt', ul], ['CUContaining', ul + 3], ['TopDIE', u0]]
        ops += [['DIEAt'] + list(lab(pick['deep'])), ['DIEAt'] + list(lab(pick['sib']))]
        ops += [['DIEGlobal', lab(pick['other'])[1]]]
        ops += [['Parent'] + list(lab(pick['deep'])), ['Parent'] + list(lab(pick['sib']))]
        if pick['gref']:
            ops += [['FollowRef'] + list(lab(pick['gref'])) + [0]]
        if pick['lref']:
            ops += [['FollowRef'] + list(lab(pick['lref'])) + [0]]
        ops += [['LineProg', u0], ['LineEntries', ul], ['CFI', 0]]
        ops += [['NewIterCUs', 0], ['NewIterDIEs', 0, u0], ['NewIterChildren', 1] + list(lab(pick['nos'])),
                ['NewIterSiblings', 1] + list(lab(pick['withsib'])), ['Next', 0], ['Next', 1]]
    elif machine == 'DN':
        # navigation only, explored deeper: two generators over the children of ONE entry interleaved with the
        # queries that walk the same children list to its end (get_parent, iter_siblings)
        u = meta['units'][0]
        best = None
        def walk(n):
            nonlocal best
            off, raw, kids, toff, traw = n
            if len(kids) >= 2 and (best is None or len(kids) < len(best[2])):
                best = n
            for k in kids:
                walk(k)
        walk(u['tree'])
        if best is not None:
            P, c1, c2 = best[0], best[2][0][0], best[2][1][0]
            ops += [['NewIterChildren', 0, u['off'], P], ['NewIterChildren', 1, u['off'], P], ['Next', 0], ['Next', 1],
                    ['Parent', u['off'], c2], ['NewIterSiblings', 1, u['off'], c1], ['DIEAt', u['off'], c1]]
    elif machine == 'DT':
        # type units: a generator over them interleaved with lookups by signature
        sigs = meta['tu_sigs']
        ops += [['NewIterTUs', 0], ['Next', 0], ['TUBySig', sigs[0]], ['TUBySig', sigs[-1]], ['TUBySig', 0x1234],
                ['Disturb', 12, 3], ['CUAt', meta['units'][-1]['off']]]
    elif machine == 'DV':
        # units of different DWARF versions sharing one abbreviation table: entries of both, in every order
        for u in meta['units']:
            ents = [e for e in entries_of(u['tree']) if not e[2]]
            ops += [['TopDIE', u['off']]] + [['DIEAt', u['off'], e[0]] for e in ents[1:4]]
            ops += [['FollowRef', u['off'], e[0], 0] for e in ents[1:4] if any(r[0] in (0, 1) for r in e[1][4])][:1]
    elif machine == 'DU':
        # the unit map: lookups that raise (no unit starts at the offset) between successful lookups by offset, by
        # contained address and by iteration, from every warm-up state (nothing, a lower, a higher unit cached)
        us = [u['off'] for u in meta['units']]
        ops += [['CUAt', u] for u in us] + [['CUContaining', us[0] + 2], ['CUContaining', us[-1] + 2]]
        ops += [['NewIterCUs', 0], ['Next', 0]]
        fails = meta['cu_fail']
        pick = [f for f in fails if f[0] < us[-1]][:1] + [f for f in fails if us[-1] < f[0] < meta['desc'][0]][:1] + \
               [f for f in fails if f[0] >= meta['desc'][0]][:1]
        ops += [['CUAtFailing'] + f for f in pick]
        if not pick:
            ops = []
        for uo, (en, cur) in sorted(meta.get('lp_fail', {}).items())[:1]:
            ops += [['LineEntriesFailing', uo, en, cur], ['LineProg', uo]]
        if pick:
            # entry lookups inside a unit header and at the end of the unit: DWARFError, then queries on that unit
            ul = meta['units'][-1]
            ops += [['DIEAtOutside', ul['off'], ul['off'] + 6], ['DIEAtOutside', us[0], us[0] + meta['units'][0]['size']],
                    ['TopDIE', ul['off']]]
    elif machine == 'DR':
        # a relocatable object: get_dwarf_info() again on the ELFFile between queries on the DWARFInfo already held
        us = meta['units']
        u0 = us[0]
        ents = entries_of(u0['tree'])
        ops += [['RefetchDwarf'], ['TopDIE', u0['off']], ['LineEntries', u0['off']], ['CUAt', us[-1]['off']]]
        ops += [['DIEAt', u0['off'], e[0]] for e in ents[1:4]]
    elif machine == 'DA':
        # listing the children of an inner entry first and those of an ancestor two (or more) levels up afterwards,
        # on a path without DW_AT_sibling: the ancestor's walk meets entries whose closing null entry is already cached
        found = []
        for u in meta['units']:
            def walk(n, up):
                off, raw, kids, toff, traw = n
                if kids and not raw[3] and len(up) >= 2 and not up[-1][1][3]:
                    found.append((len(kids) + len(up[-2][2]), u['off'], up[-2], up[-1], n, up[0]))
                for k in kids:
                    walk(k, up + [n])
            walk(u['tree'], [])
        if found:
            _, uo, anc, mid, inner, top = min(found, key=lambda x: (x[0], x[1], x[4][0]))
            ops += [['NewIterChildren', 0, uo, inner[0]], ['Next', 0], ['NewIterChildren', 1, uo, anc[0]], ['Next', 1],
                    ['NewIterChildren', 1, uo, top[0]], ['DIEAt', uo, mid[0]]]
    elif machine == 'DQ':
        # an entry Q with children that is followed by a sibling R: walking Q's children to the end caches the null
        # entry that closes them, which is adjacent to R; then R's parent is asked for
        u = meta['units'][0]
        found = []
        def walk(n):
            off, raw, kids, toff, traw = n
            for a, b in zip(kids, kids[1:]):
                if a[2]:
                    found.append((len(a[2]), a, b))
            for k in kids:
                walk(k)
        walk(u['tree'])
        if found:
            _, Q, R = min(found, key=lambda x: (x[0], x[1][0]))
            ops += [['NewIterChildren', 0, u['off'], Q[0]], ['Next', 0], ['Parent', u['off'], R[0]], ['DIEAt', u['off'], R[0]],
                    ['DIEAt', u['off'], Q[0]], ['Parent', u['off'], Q[2][0][0]], ['NewIterSiblings', 0, u['off'], R[0]]]
    elif machine == 'DF':
        # call-frame information only: fetching the entry list and decoding its entries in every order
        ops += [['CFI', 0], ['Disturb', 4, 5]]
        for eh in (0, 1):
            ops += [['CFIDecoded', eh, i] for i, e in enumerate(meta['cfi_ents'][eh]) if e[0] != 2]
    else:
        ids = meta['ids']
        dup = None
        seen = {}
        for n in range(meta['num_symbols']):
            pass
        ops += [['Disturb', 0, 0], ['Disturb', 0, len(meta['image']) // 2 + 1]]
        ops += [['ENumSections'], ['ESection', 2], ['ESection', meta['symtab_idx']],
                ['ESectionByName', ids.name('.debug_info') if meta['name'] != 'C' else ids.name('.data')],
                ['ESectionByName', ids.name('.strtab')],
                ['ESectionByName', ids.name('.no-such-name')], ['ESegment', 1]]
        ty2 = meta['desc'][8][2][5]
        ops += [['ESectionTyped', 2, ty2], ['ESectionTyped', 2, meta['desc'][8][1][5] if meta['desc'][8][1][5] != ty2 else 0]]
        ops += [['ESymbol', 2], ['ESymbolByName', ids.name({'A': 'dup', 'B': 'h', 'C': 'f2'}[meta['name']])],
                ['EString', 1]]
        ops += [['ENumTags'], ['EGetTag', 1], ['EGetTag', meta['num_tags'] + 1]]
        ops += [['NewIterSections', 0], ['NewIterSymbols', 1], ['NewIterTags', 1], ['Next', 0], ['Next', 1]]
    return ops


# ------------------------------------------------------------------ running histories on the implementation
def run_impl(meta, history, stride=0, parts='DE'):
    """-> (answers, abstract states as sx text after every stride-th call and the last one)"""
    o = Opened(meta, parts)
    try:
        answers, states = [], []
        n = len(history)
        for j, op in enumerate(history):
            answers.append(sx.canon(o.do(op)))
            if j + 1 == n or (stride and (j + 1) % stride == 0):
                states.append(sx.dumps(o.abs_state()))
        if not history:
            states.append(sx.dumps(o.abs_state()))
        return answers, states
    finally:
        o.close()


_POOL_META = None
_POOL_PARTS = 'DE'


def _edge_worker(task):
    history = task
    ans, st = run_impl(_POOL_META, history, parts=_POOL_PARTS)
    return ans[-1] if ans else None, st[-1]


def explore(meta, machine, depth, workers=16):
    """breadth-first over the alphabet, de-duplicated on the abstract state.
    -> list of (history, last answer, state text), number of states"""
    import multiprocessing
    global _POOL_META, _POOL_PARTS
    _POOL_META = meta
    _POOL_PARTS = machine
    ops = alphabet(meta, machine)
    fresh_dwarf(meta)          # the template is made before the workers are forked
    _, st0 = run_impl(meta, [], parts=machine)
    seen = {st0[0]: []}
    frontier = [[]]
    edges = []
    ctx_mp = multiprocessing.get_context('fork')
    with ctx_mp.Pool(workers) as pool:
        for d in range(depth):
            tasks = [h + [op] for h in frontier for op in ops]
            if not tasks:
                break
            res = pool.map(_edge_worker, tasks, chunksize=max(1, len(tasks) // (workers * 8)))
            nxt = []
            for h, (a, st) in zip(tasks, res):
                edges.append((h, a, st))
                if st not in seen:
                    seen[st] = h
                    nxt.append(h)
            frontier = nxt
    closed = not frontier
    return edges, len(seen), closed


# ------------------------------------------------------------------ the driver (raw lines: states are compared as text)
_OPTXT = {}


def _hist_txt(h):
    out = []
    for op in h:
        k = tuple(op)
        s = _OPTXT.get(k)
        if s is None:
            s = _OPTXT[k] = sx.dumps(op)
        out.append(s)
    return '(' + ' '.join(out) + ')'


def _fuel(meta):
    """fuel of the model's loops: above the bound fuel_ok (Spec/C10Spec.v) demands"""
    fuel = 64 + 8 * sum(len(entries_of(u['tree'])) for u in meta['units']) + 2 * meta['num_tags'] + len(meta['units'])
    return max(fuel, 200)


def drv_runs(ctx, meta, histories, stride=0, raw_last=False):
    """-> per history (model answers, spec answers, valid flags, [state texts]).
    raw_last: only the LAST call's answers, as text '(answer)', and valid as a bool (no parsing)."""
    if not histories:
        return []
    fuel = _fuel(meta)
    file_txt = meta.get('desc_txt')
    if file_txt is None:
        file_txt = meta['desc_txt'] = sx.dumps(meta['desc'])
    out = []
    K = 50 if len(file_txt) < 100000 else 1
    lines = []
    for i in range(0, len(histories), K):
        lines.append('("runs" %s %s %s %s %s (%s))' % (file_txt, hex(NSLOTS), hex(fuel), hex(stride),
                                                      '0x1' if raw_last else '0x0',
                                                      ' '.join(_hist_txt(h) for h in histories[i:i + K])))
    CH = max(1, 20000000 // (len(file_txt) + 2000))
    for i in range(0, len(lines), CH):
        chunk = lines[i:i + CH]
        p = subprocess.run(['bash', '-c', 'ulimit -s unlimited 2>/dev/null; exec "$0"', ctx.driver.exe],
                           input='\n'.join(chunk) + '\n', stdout=subprocess.PIPE, stderr=subprocess.PIPE, text=True)
        res = p.stdout.split('\n')
        if res and res[-1] == '':
            res.pop()
        if p.returncode != 0 or len(res) != len(chunk):
            raise RuntimeError('driver failed rc=%s answered %d of %d: %s' % (p.returncode, len(res), len(chunk), p.stderr[-400:]))
        ctx.driver.calls += len(chunk)
        for line in res:
            for piece in line[1:-1].split('"#"')[1:]:
                parts = piece.split('"|"')
                if raw_last:
                    out.append((parts[0].strip(), parts[1].strip(), '0x0' not in parts[2], [q.strip() for q in parts[3:]]))
                else:
                    out.append((sx.canon(sx.loads(parts[0])), sx.canon(sx.loads(parts[1])), sx.loads(parts[2]),
                                [q.strip() for q in parts[3:]]))
    if len(out) != len(histories):
        raise RuntimeError('driver answered %d of %d histories' % (len(out), len(histories)))
    return out


# ------------------------------------------------------------------ keys of the findings
def finding_key(meta, history):
    op = history[-1]
    if op[0] == 'EGetTag' and op[1] >= meta['num_tags']:
        return 'get_tag-past-DT_NULL-depends-on-num_tags'
    if op[0] == 'LineProg' and any(l[3][1] > 0 for l in meta['lines'].values()):
        if any(h[0] == 'LineEntries' for h in history[:-1]):
            return 'lineprogram-header-file_entry-grows-after-get_entries'
    return 'history:' + op[0]


def in_defect_domain(meta, history):
    return finding_key(meta, history).startswith('history:') is False


# ------------------------------------------------------------------ gen / evaluate
_CACHE = {}      # (file, tuple(history)) -> (last answer, state text) computed during exploration


def _hkey(name, history):
    return (name, repr(history))


PAIRS = [('A', 'Abe'), ('B', 'Ble')]
_PAIR_CACHE = {}
RELOCATABLE_FILES = ['testfiles_for_unittests/arm_exidx_test.o']      # REL relocations against symbols with values

RANDOM_FILES = [
    'testfiles_for_unittests/lib_versioned64.so.1.elf', 'testfiles_for_unittests/dwarf_v5_forms.debug',
    'testfiles_for_unittests/dwarf_lineprog_data16.elf', 'testfiles_for_unittests/dwarf_debug_types.elf',
    'testfiles_for_unittests/trailing_null_dies.elf', 'testfiles_for_unittests/sample_exe64.elf',
    'testfiles_for_unittests/dwarfv5_basic.elf', 'testfiles_for_unittests/simple_gcc.elf.mips',
    'testfiles_for_unittests/lib_with_two_dynstr_sections.so.1.elf', 'testfiles_for_unittests/pascalenum.o',
    'testfiles_for_unittests/aranges_complete.elf', 'testfiles_for_unittests/gmtime_r.o.elf',
    'testfiles_for_readelf/exe_simple32.elf', 'testfiles_for_readelf/exe_simple64.elf',
    'testfiles_for_readelf/dwarf_gnuops4.so.elf', 'testfiles_for_readelf/penalty_32_gcc.o.elf',
]


def random_op(rng, meta):
    """one operation with arguments drawn from the tabulated file"""
    choices = []
    if meta['has_dwarf']:
        full = [u for u in meta['units'] if not u['stub']]
        us = meta['units']
        u = rng.choice(us)
        choices += [['CUAt', u['off']], ['CUContaining', u['off'] + rng.randrange(u['size'])], ['TopDIE', u['off']],
                    ['LineProg', u['off']], ['LineEntries', u['off']], ['NewIterCUs', rng.randrange(NSLOTS)]]
        if meta['has_cfi']:
            choices.append(['CFI', 0])
        if meta['has_ehcfi']:
            choices.append(['CFI', 1])
        for eh in (0, 1):
            n = len(meta['cfi_ents'][eh])
            if n:
                choices += [['CFIDecoded', eh, rng.randrange(n)] for _ in range(3)]
        if meta['tu_sigs']:
            choices += [['NewIterTUs', rng.randrange(NSLOTS)], ['TUBySig', rng.choice(meta['tu_sigs'])],
                        ['TUBySig', rng.choice(meta['tu_sigs'])], ['TUBySig', 0x1234]]
        if full:
            u = rng.choice(full)
            ents = u.get('ents')
            if ents is None:
                ents = u['ents'] = entries_of(u['tree'])
            off, raw, isnull, _ = rng.choice(ents)
            choices += [['DIEAt', u['off'], off], ['DIEGlobal', off], ['Parent', u['off'], off],
                        ['NewIterDIEs', rng.randrange(NSLOTS), u['off']],
                        ['NewIterChildren', rng.randrange(NSLOTS), u['off'], off],
                        ['NewIterSiblings', rng.randrange(NSLOTS), u['off'], off]] * 2
            refs = [i for i, r in enumerate(raw[4]) if r[0] in (0, 1)]
            if refs:
                choices += [['FollowRef', u['off'], off, rng.choice(refs)]] * 3
    if meta.get('refetch') and meta['has_dwarf']:
        choices += [['RefetchDwarf']] * 2
    if meta['has_dwarf'] and meta.get('cu_fail'):
        choices += [['CUAtFailing'] + rng.choice(meta['cu_fail']) for _ in range(2)]
        u = rng.choice(meta['units'])
        choices += [['DIEAtOutside', u['off'], rng.randrange(u['off'], u['die_off'])],
                    ['DIEAtOutside', u['off'], u['off'] + u['size'] + rng.randrange(3)]]
    if meta['num_sections']:
        n = rng.randrange(meta['num_sections'])
        choices += [['ESectionTyped', n, meta['desc'][8][n][5]],
                    ['ESectionTyped', n, meta['desc'][8][rng.randrange(meta['num_sections'])][5]]]
    choices += [['ENumSections'], ['ESection', rng.randrange(max(1, meta['num_sections']))],
                ['ESectionByName', rng.randrange(1, len(meta['ids'].name_list) + 1)],
                ['NewIterSections', rng.randrange(NSLOTS)]]
    if meta['num_segments']:
        choices.append(['ESegment', rng.randrange(meta['num_segments'])])
    if meta['symtab_idx'] is not None and meta['num_symbols']:
        choices += [['ESymbol', rng.randrange(meta['num_symbols'])],
                    ['ESymbolByName', rng.randrange(1, len(meta['ids'].name_list) + 1)],
                    ['NewIterSymbols', rng.randrange(NSLOTS)], ['EString', rng.choice(meta['string_offsets'])]]
    if meta['dyn_idx'] is not None and meta['num_tags']:
        choices += [['ENumTags'], ['EGetTag', rng.randrange(meta['num_tags'] + 3)], ['NewIterTags', rng.randrange(NSLOTS)]]
    choices += [['Next', rng.randrange(NSLOTS)]] * max(3, len(choices) // 3)
    op = rng.choice(choices)
    fail = meta.get('lp_fail', {})
    if op[0] == 'LineEntries' and op[1] in fail:
        op = ['LineEntriesFailing', op[1]] + fail[op[1]]
    return op


def random_disturb(rng, meta):
    sids = [0]
    if meta['has_dwarf']:
        o = _sid_sizes(meta)
        sids += [s for s in o if s != 0]
    sid = rng.choice(sids)
    size = _sid_sizes(meta)[sid]
    return ['Disturb', sid, rng.choice([0, size, rng.randrange(size + 1), rng.randrange(size + 1)])]


def _sid_sizes(meta):
    if 'sid_sizes' not in meta:
        d = {0: len(meta['image'])}
        if meta['has_dwarf']:
            dw = _fresh_dw(meta['image'])
            for sid, attr in SIDS.items():
                sec = getattr(dw, attr)
                if sec is not None and sid != 12:
                    d[sid] = sec.size
        meta['sid_sizes'] = d
    return meta['sid_sizes']


# ------------------------------------------------------------------ two file objects alive in one process
def pair_alphabet(meta):
    """queries whose answers go through byte-order / size / format dependent parsing"""
    u0 = meta['units'][0]['off']
    ops = [['TopDIE', u0], ['LineProg', u0], ['LineEntries', u0], ['CFI', 0], ['ESection', 2], ['ESymbol', 1]]
    if meta['has_ehcfi']:
        ops += [['CFI', 1]] + [['CFIDecoded', 1, i] for i, e in enumerate(meta['cfi_ents'][1]) if e[0] == 1][:1]
    return ops


def _pair_worker(task):
    """one history over TWO opened files, in a process of its own (forked from a process that has parsed nothing)"""
    nx, ny, h = task
    objs = [Opened(load_file(nx)), Opened(load_file(ny))]
    try:
        return [objs[w].do(op) for w, op in h]
    finally:
        for o in objs:
            o.close()


def run_pairs(tasks, workers=16):
    import multiprocessing
    if not tasks:
        return []
    with multiprocessing.get_context('fork').Pool(min(workers, len(tasks)), maxtasksperchild=1) as pool:
        return pool.map(_pair_worker, tasks, chunksize=1)


def gen(ctx):
    cases = []
    # thorough: one level deeper everywhere, three times the edge budget per (file, alphabet) — about ten times the
    # quick tier's cases; deeper bounds cost hours (depth 8 did not finish in 4 h) and are not registered
    depth = ctx.scale(int(os.environ.get('C10_DEPTH', '4')), int(os.environ.get('C10_DEPTH_THOROUGH', '5')))
    budget = ctx.scale(200000, 600000)
    stats = ctx.c10_stats = {}
    # two differently configured file objects in one process (other byte order): every interleaving of their
    # queries up to the depth bound; each answer is compared with the stateless answer for ITS file
    for nx, ny in PAIRS:
        nx, ny = nx + '@' + ctx.rng.choice(KINDS[1:]), ny + '@' + draw_kind(ctx.rng)
        mx, my = load_file(nx), load_file(ny)
        if mx.get('broken') or my.get('broken'):
            continue
        sym = [(0, op) for op in pair_alphabet(mx)] + [(1, op) for op in pair_alphabet(my)]
        level = [[]]
        for _ in range(ctx.scale(2, 3)):
            level = [h + [s] for h in level for s in sym]
            # histories on ONE of the two objects are what the single-file exploration covers: beyond length 1 only
            # histories that touch both objects are run
            cases += [('pair', [nx + '+' + ny, [[w, op] for w, op in h]]) for h in level
                      if len(h) == 1 or len(set(w for w, _ in h)) == 2]
    # stream kinds (tools/lib/streams.py): the ELF-level alphabet of every synthesized file runs on a drawn kind that
    # is NOT BytesIO (real buffered file, 16-byte buffer, mmap, gzip, decoy descriptor, ...); the DWARF alphabets work
    # on the section copies the library makes, which are BytesIO whatever the file stream is
    elf_kinds = dict(zip(('A', 'B', 'C'), ctx.rng.sample(KINDS[1:], 3)))
    for base in ('A', 'B', 'C', 'D'):
        if load_file(base).get('broken'):
            cases.append(('tab', [base, []]))
            continue
        for machine in (('DV', 'DU') if base == 'D' else ('D', 'E', 'EK', 'DF', 'DN', 'DT', 'DQ', 'DA', 'DU')):
            name = base
            if machine == 'EK':      # the ELF-level alphabet once more, one level less deep, on the drawn stream kind
                name, machine = base + '@' + elf_kinds[base], 'E'
                depth_k = max(1, depth - 1)
            meta = load_file(name)
            if machine == 'DT' and len(meta.get('tu_sigs', [])) < 2:
                continue
            d = {'DF': depth + 2, 'DN': depth + 5, 'DT': depth + 2, 'DQ': depth + 2, 'DA': depth + 3, 'DV': depth + 1}.get(machine, depth)
            if '@' in name:
                d = depth_k
            if not alphabet(meta, machine):
                continue
            edges, nstates, closed = explore(meta, machine, d)
            while len(edges) > budget and d > 1:      # never silently: the bound actually used is in the evidence
                d -= 1
                edges, nstates, closed = explore(meta, machine, d)
            if not alphabet(meta, machine):
                continue
            stats['%s/%s' % (name, machine)] = dict(depth=d, states=nstates, edges=len(edges), closed=closed,
                                                    alphabet=len(alphabet(meta, machine)))
            for h, a, st in edges:
                _CACHE[_hkey(name, h)] = (a, st)
                cases.append(('bfs', [name, h]))
    for name in RELOCATABLE_FILES:
        try:
            meta = load_file(name)
        except Exception as ex:
            ctx.notes.append('seed %s not usable: %s' % (name, ex))
            continue
        if not (meta.get('refetch') and meta['has_dwarf'] and meta['units']):
            continue
        edges, nstates, closed = explore(meta, 'DR', min(depth, 3))
        stats['%s/DR' % name.split('/')[-1]] = dict(depth=min(depth, 3), states=nstates, edges=len(edges), closed=closed,
                                                     alphabet=len(alphabet(meta, 'DR')))
        for h, a, st in edges:
            _CACHE[_hkey(name, h)] = (a, st)
            cases.append(('bfs', [name, h]))
    # long random histories with a Disturb after every call
    n_hist = ctx.scale(1, 6)
    total = ctx.scale(1000, 30000)
    for fi, name in enumerate(RANDOM_FILES):
        try:
            meta = load_file(name)
        except Exception as ex:
            ctx.notes.append('seed %s not usable: %s' % (name, ex))
            continue
        per = max(20, total // len(RANDOM_FILES) // n_hist)
        for _ in range(n_hist):
            kind = draw_kind(ctx.rng)
            if kind != 'bytesio':
                name = name.split('@')[0] + '@' + kind
            h = []
            for _ in range(per):
                h.append(random_op(ctx.rng, meta))
                h.append(random_disturb(ctx.rng, meta))
            cases.append(('rnd', [name, h]))
    return cases


def corpus(ctx):
    """the two deviations of DESIGN section 5, as minimal histories"""
    out = []
    c = load_file('C')
    if not c.get('broken'):
        u0 = c['units'][0]['off']
        out.append(('bfs', ['C', [['LineEntries', u0], ['LineProg', u0]]]))
    a = load_file('A')
    if not a.get('broken'):
        out.append(('bfs', ['A', [['EGetTag', a['num_tags'] + 1]]]))
        out.append(('bfs', ['A', [['ENumTags'], ['EGetTag', a['num_tags'] + 1]]]))
    v = 'testfiles_for_unittests/lib_versioned64.so.1.elf'
    out.append(('rnd', [v, [['EGetTag', 31]]]))
    out.append(('rnd', [v, [['ENumTags'], ['EGetTag', 31]]]))
    return out


def _first_bad(impl, spec, valid):
    for i, (a, b) in enumerate(zip(impl, spec)):
        if not all(valid[:i + 1]):
            return None
        if a != b:
            return i
    return None


def _minimise(ctx, meta, history, bad):
    """delta debugging of a failing history (impl vs spec at the last call) to a 1-minimal one"""
    h = history[:bad + 1]
    def fails(hh):
        if not hh:
            return False
        impl, _ = run_impl(meta, hh)
        (model, spec, valid, _), = drv_runs(ctx, meta, [hh])
        return all(valid) and impl[-1] != spec[-1]
    n = 2
    body = h[:-1]
    last = h[-1]
    while len(body) >= 1:
        chunk = max(1, len(body) // n)
        reduced = False
        for i in range(0, len(body), chunk):
            cand = body[:i] + body[i + chunk:]
            if fails(cand + [last]):
                body = cand
                n = max(n - 1, 2)
                reduced = True
                break
        if not reduced:
            if chunk == 1:
                break
            n = min(len(body), n * 2)
    return body + [last]


def _stride(meta):
    n = sum(len(entries_of(u['tree'])) for u in meta['units'])
    return 1 if n <= 300 else 25


def evaluate_pairs(ctx, cases, idxs):
    """the product of two independent machines: the answers must be, componentwise, the stateless answers"""
    groups = {}
    for i in idxs:
        groups.setdefault(cases[i][1][0], []).append(i)
    for pname, ids_ in groups.items():
        nx, ny = pname.split('+')
        metas = [load_file(nx), load_file(ny)]
        wfs = []
        for m in metas:
            wf, nodef, fuel_ok = ctx.driver.one(['wf', m['desc'], _fuel(m)])
            wfs.append(bool(wf) and bool(fuel_ok))
        hs = [[(w, op) for w, op in cases[i][1][1]] for i in ids_]
        impl_all = [_PAIR_CACHE.get(repr(cases[i][1])) for i in ids_]
        miss = [n for n, a in enumerate(impl_all) if a is None]
        for n, a in zip(miss, run_pairs([(nx, ny, hs[n]) for n in miss])):
            impl_all[n] = a
        subs = [[[op for w, op in h if w == k] for h in hs] for k in (0, 1)]
        res = [drv_runs(ctx, metas[k], subs[k]) if any(subs[k]) else [] for k in (0, 1)]
        for n, (i, h, impl) in enumerate(zip(ids_, hs, impl_all)):
            pos = [0, 0]
            spec, model, valid = [], [], True
            for w, op in h:
                if not subs[w][n]:
                    continue
                mo, sp, va, _ = res[w][n]
                spec.append(sp[pos[w]]); model.append(mo[pos[w]]); valid = valid and bool(va[pos[w]])
                pos[w] += 1
            ctx.bump('pair_len', len(h))
            ctx.record('pair', cases[i][1], impl=impl, spec=spec, model=model, in_domain=all(wfs) and valid,
                       nontrivial=len(set(w for w, _ in h)) == 2, key='pair:' + h[-1][1][0])


def evaluate(ctx, cases):
    pair_idx = [i for i, (kind, a) in enumerate(cases) if kind == 'pair']
    if pair_idx:
        evaluate_pairs(ctx, cases, pair_idx)      # first: this process has not parsed anything yet
    by_file = {}
    for idx, (kind, a) in enumerate(cases):
        for part in a[0].split('+'):
            ctx.bump('stream_kind', part.split('@')[1] if '@' in part else 'bytesio')
        if kind == 'pair':
            continue
        by_file.setdefault(a[0], []).append(idx)
    iso = {}
    for name, idxs in by_file.items():
        meta = load_file(name)
        if meta.get('broken'):
            for i in idxs:
                ctx.record(cases[i][0], cases[i][1], impl=['err', meta['broken']], spec=['tabulated'], model=['tabulated'],
                           in_domain=True, nontrivial=True, key='tabulate:' + name)
            continue
        wf, nodef, fuel_ok = ctx.driver.one(['wf', meta['desc'], _fuel(meta)])
        wf = bool(wf) and bool(fuel_ok) and not meta.get('lp_disagree')
        if not wf:
            ctx.notes.append('wf_file / fuel_ok is false for %s: its cases are out of domain' % name)
        t = iso.setdefault(name, [0, 0, None])
        bfs = [i for i in idxs if cases[i][0] == 'bfs']
        rnd = [i for i in idxs if cases[i][0] != 'bfs']
        # ---------- explored edges: last answer and abstract state after the history
        res = drv_runs(ctx, meta, [cases[i][1][1] for i in bfs], stride=0, raw_last=True)
        for i, (model_t, spec_t, valid, mstates) in zip(bfs, res):
            h = cases[i][1][1]
            cached = _CACHE.get(_hkey(name, h))
            if cached is None:
                ans, sts = run_impl(meta, h)
                cached = (ans[-1], sts[-1])
            impl_last, impl_state = cached
            t[0] += 1
            if impl_state != mstates[-1]:
                t[1] += 1
                if t[2] is None:
                    t[2] = h
            ctx.bump('bfs_op', h[-1][0])
            ctx.bump('bfs_len', len(h))
            impl_t = '(' + sx.dumps(impl_last) + ')'
            if impl_t == spec_t and model_t == spec_t:     # the common case, compared as text
                spec = model = impl_last
            else:
                spec, model = sx.canon(sx.loads(spec_t))[0], sx.canon(sx.loads(model_t))[0]
            key = finding_key(meta, h)
            if impl_last != model:
                key = 'history:' + h[-1][0]      # not the behaviour the model of a known finding describes
            ctx.record('bfs', [name, h], impl=impl_last, spec=spec, model=model, in_domain=wf and valid,
                       nontrivial=len(h) >= 2 or h[-1][0] not in ('Disturb', 'ENumSections'), key=key)
        # ---------- long histories: every answer, abstract states along the way
        stride = _stride(meta)
        res = drv_runs(ctx, meta, [cases[i][1][1] for i in rnd], stride=stride)
        for i, (model, spec, valid, mstates) in zip(rnd, res):
            h = cases[i][1][1]
            impl, istates = run_impl(meta, h, stride=stride)
            first_invalid = next((j for j, ok in enumerate(valid) if not ok), len(h))
            for j, (a, b) in enumerate(zip(istates, mstates)):
                if min((j + 1) * stride, len(h)) > first_invalid:
                    break          # after an operation outside the domain (it may raise half-way) states need not agree
                t[0] += 1
                if a != b:
                    t[1] += 1
                    if t[2] is None:
                        t[2] = h[:(j + 1) * stride]
            bad = None
            for j in range(len(h)):
                if not valid[j]:
                    break
                if impl[j] != spec[j] or model[j] != spec[j]:
                    bad = j
                    break
            ctx.bump('rnd_file', name.split('/')[-1])
            ctx.bump('rnd_len', len(h))
            if bad is None:
                nv = sum(1 for v in valid if v)
                short = h if len(h) <= 8 else ['sha256', hashlib.sha256(repr(h).encode()).hexdigest(), len(h)]
                ctx.record('rnd', [name, short], impl=['all-equal', nv], spec=['all-equal', nv],
                           model=['all-equal', nv], in_domain=wf and nv == len(h), nontrivial=True,
                           key='history:random')
            else:
                hh = h[:bad + 1]
                if impl[bad] != spec[bad] and len(hh) > 2:
                    hh = _minimise(ctx, meta, h, bad)
                i2, _ = run_impl(meta, hh)
                (m2, s2, v2, _), = drv_runs(ctx, meta, [hh])
                key = finding_key(meta, hh)
                if i2[-1] != m2[-1]:
                    key = 'history:' + hh[-1][0]
                ctx.record('rnd', [name, hh], impl=i2[-1], spec=s2[-1], model=m2[-1],
                           in_domain=wf and all(v2), nontrivial=True, key=key)
    for name, (n, bad, first) in iso.items():
        ctx.record('state-graph', [name], impl=['edges', n, 'state-mismatches', bad],
                   spec=['edges', n, 'state-mismatches', bad], model=['edges', n, 'state-mismatches', 0],
                   in_domain=False, nontrivial=False, key='state-graph')
        if bad:
            ctx.notes.append('abstract state of the implementation differs from the model on %d of %d compared '
                             'states of %s; first: %r' % (bad, n, name, first))
    if hasattr(ctx, 'c10_stats'):
        for k, v in ctx.c10_stats.items():
            ctx.bump('exploration', '%s: alphabet %d, depth<=%d, %d states, %d edges%s' %
                     (k, v['alphabet'], v['depth'], v['states'], v['edges'], ', closed' if v['closed'] else ''))
