"""C12 correspondence: DWARF expressions.
impl  = DWARFExprParser(DWARFStructs(le, fmt, addr)).parse_expr(list(bytes)) -> (op, op_name, args, offset), recursively
bytes = Spec.C12Spec.encode_ops (extracted), spec = Spec.C12Spec.annotate, model = Model.C12Expr.parse_expr.
Every run is exhaustive over all 256 opcodes x operand boundary values x the 8 configurations, and adds
random sequences with nested entry-value blocks up to depth 5; ill-formed expressions (a byte that is not an
operation in opcode position, an entry-value / implicit-value block announced longer than what is left; behind
well-formed operations, at every nesting depth) which have to be refused (C12_illformed_rejected); call histories on
one parser object with the caller editing earlier results in place (C12_parse_history); plus a malformed stream
(truncations, bad WASM tags) on which only model and implementation are compared."""
from tools.lib.framework import impl_call

CLAIMED = True
CONFIG = {'assumptions': [
    'a parse result is compared as the tree (op, op_name, args, offset); a list-of-ints argument and an empty nested '
    'expression are both the Python value [] and are identified',
    'configuration = (little_endian, address_size in {4,8}, dwarf_format in {32,64}), the domain DWARFStructs asserts; '
    'dwarf_version is left at its default (operand sizes in dwarf_expr.py do not depend on it)',
    'CPython recursion limit (nesting depth of entry-value blocks beyond ~300) is outside the model',
    'ill-formed expressions of the forms of Spec bexpr (unassigned byte in opcode position; entry-value / implicit-value '
    'block announced longer than the rest of the enclosing expression; at any depth) must be REFUSED: the verdict compared '
    'in domain is accept/reject (any exception counts as refusal; the exception class is compared with the model as drift '
    'only, the property does not state it)',
    'parse_expr is observed as a function of (configuration, bytes): fresh parser objects per history case, the same '
    'bytes parsed repeatedly, every mutable part of each returned result (args lists, blobs, nested op lists, the outer '
    'list, the list passed in) edited in place by the caller between calls; every call must return the stateless parse',
    'histories also contain other single-threaded activity of the process between parses (a .debug_frame decoded through '
    'CallFrameInfo over the same DWARFStructs configuration, other DWARFStructs requested, parser replaced / deep-copied, '
    'gc): the outcome of that activity is not observed, the parses after it are; after a history that changed the answers '
    'of parsers it never touched, the remaining histories of the run are skipped (they would not replay). Thread '
    'schedules are outside the property',
    'the expression is handed to parse_expr in every form bytes(expr) accepts and the unchanged code answers correctly for: '
    'list (docstring), tuple, bytes, bytearray, memoryview, iter(list), generator, map, itertools.chain - chosen by a hash of '
    'the case (so a replay uses the same form; it is shown in the replay\'s detail)',
    'other malformed inputs (truncated fixed-size / LEB128 / typed operands, DW_OP_WASM_location tags > 3) are outside '
    'the property (model vs implementation only)']}
LEVEL = {'text': 'Machine-checked theorem: for every configuration, every list of well-formed operations of the DWARF 2-5 + '
                 'GNU/WASM table (any length, any nesting depth, every valid LEB128 encoding incl. non-minimal, blobs of any '
                 'length) the model of parse_expr returns exactly opcode, name, operand values and byte offsets, recursively; '
                 're-encoding corollary; the dispatch table and the name tables are regenerated from the live module on every '
                 'run and proved equal to the table written from the standard (vm_compute); names one-to-one with opcodes. '
                 'Converse on the accept/reject boundary (C12_illformed_rejected): a byte outside the table in opcode '
                 'position, or an entry-value / implicit-value block announced longer than the rest, behind any well-formed '
                 'operations at any nesting depth, is refused; C12_parse_history: the answer depends on (configuration, '
                 'bytes) only, observed on the implementation through call histories with caller-side edits of results. '
                 'The parse loop / operand readers are a transliteration pinned by an exhaustive correspondence over all 256 '
                 'opcodes x boundary operands x 8 configurations on every run plus random nested sequences.',
         'design_ref': '4.12',
         'technique': 'Coq proof (rose-tree induction over nested expressions, fuel = length) + Gen table theorems + '
                      'extracted-model correspondence',
         'note': 'Trusted: Coq kernel, extraction, harness, the behavioural identification of the dispatch closures in '
                 'tools/gen/gen_c12.py (itself cross-checked by the exhaustive correspondence), the operand table in '
                 'Spec/C12Spec.v written from DWARF 2-5 / GCC / binutils / the WASM DWARF note. No axioms.'}

RULE = ('cases: (a) exhaustive: for each of the 256 opcodes and each of the 8 configurations, one case per operand '
        'boundary tuple (fixed ints: 0, 1, max, sign boundary, byte pattern; LEB128: 0,1,63,64,127,128,... 2^64, 2^70 with '
        'minimal and padded encodings; blobs of length 0..1000; typed blobs 0..255; nested bodies to depth 5; all WASM '
        'tags), each followed by a DW_OP_nop to pin the consumed length; opcodes outside the table as raw bytes; '
        '(b) random sequences of 0..300 operations, nesting depth <= 5; (c) malformed: every truncation of some '
        'sequences, unknown opcodes, bad WASM tags (out of domain); (d) ill-formed, must be refused (in domain): every '
        'byte outside the table in opcode position alone / behind well-formed operations / inside entry-value blocks to '
        'depth 5, entry-value and implicit-value blocks announcing 1..2^64 bytes more than remain, at depth 0..5, padded '
        'length fields, arbitrary bytes behind; (e) histories: two fresh parser objects, 1..3 expressions parsed 3..8 '
        'times in a random order with at least one repetition, each result (and the input list) scrambled in place '
        'after it was compared; histories with other activity of the process between the parses (a .debug_frame with a '
        'CIE of version 1/3/4 - v4 with the same or another address_size - decoded through CallFrameInfo over the same '
        'structs configuration, other DWARFStructs configurations requested, parser replaced / deep-copied, gc), ending '
        'with a probe expression using every operand kind on an old and a new parser. distinct = hash(kind, abstract); non-trivial = the '
        'case contains an operand or at least two operations')

CONFIGS = [(le, addr, fmt) for le in (1, 0) for addr in (4, 8) for fmt in (32, 64)]
MAXDEPTH = 5
BLAME_CAP = 300


# ------------------------------------------------------------------ generators of encodings (certified by the Coq wf check)
def uleb(v, pad=0):
    out = []
    while True:
        b = v & 0x7f
        v >>= 7
        if v:
            out.append(b | 0x80)
        else:
            out.append(b)
            break
    if pad:
        out[-1] |= 0x80
        out += [0x80] * (pad - 1) + [0x00]
    return bytes(out)


def sleb(v, pad=0):
    neg = v < 0
    out = []
    while True:
        b = v & 0x7f
        v >>= 7
        if (v == 0 and not b & 0x40) or (v == -1 and b & 0x40):
            out.append(b)
            break
        out.append(b | 0x80)
    if pad:
        out[-1] |= 0x80
        out += [0xff if neg else 0x80] * (pad - 1) + [0x7f if neg else 0x00]
    return bytes(out)


ULEB_B = [0, 1, 2, 63, 64, 127, 128, 129, 255, 256, 16383, 16384, 2**31 - 1, 2**31, 2**32 - 1, 2**32, 2**63 - 1, 2**63,
          2**64 - 1, 2**64, 2**70]
SLEB_B = [0, 1, -1, 2, -2, 63, 64, -64, -65, 127, 128, -128, -129, 8191, 8192, -8192, -8193, 2**31 - 1, -2**31, 2**31,
          2**63 - 1, -2**63, 2**63, -2**63 - 1, 2**70, -2**70]
BLOCK_LENS = [0, 1, 2, 3, 127, 128, 129, 255, 256, 300, 1000]
TYPED_LENS = [0, 1, 2, 8, 16, 127, 128, 255]


def width(kind, cfg):
    le, addr, fmt = cfg
    if kind == 'ADDR':
        return addr
    if kind == 'OFFSET':
        return 4 if fmt == 32 else 8
    return int(kind[1])


def fixed_boundary(kind, cfg):
    n = width(kind, cfg)
    m = 1 << (8 * n)
    pat = int.from_bytes(bytes(range(0x81, 0x81 + n)), 'big')
    if kind[0] == 'S' and kind != 'SLEB':
        return [0, 1, -1, m // 2 - 1, -(m // 2), pat - m, 0x7f, -0x80]
    return [0, 1, m // 2 - 1, m // 2, m - 1, pat, 0x80, 0xff]


def blob(rng, n):
    return bytes(rng.getrandbits(8) for _ in range(n))


def boundary_vals(rng, kind, cfg):
    """list of wire operand values for one kind"""
    if kind == 'ULEB':
        out = [['leb', uleb(v), v] for v in ULEB_B]
        out += [['leb', uleb(v, p), v] for v, p in ((0, 1), (1, 3), (127, 1), (128, 2), (2**32, 1), (2**64, 5))]
        return out
    if kind == 'SLEB':
        out = [['leb', sleb(v), v] for v in SLEB_B]
        out += [['leb', sleb(v, p), v] for v, p in ((0, 1), (-1, 1), (-1, 4), (63, 2), (-64, 1), (64, 1), (-65, 3), (2**63, 2))]
        return out
    if kind == 'BLOCK':
        out = [['blk', uleb(n), blob(rng, n)] for n in BLOCK_LENS]
        out += [['blk', uleb(n, p), blob(rng, n)] for n, p in ((0, 1), (5, 2), (128, 1))]
        return out
    if kind == 'TYPEDBLOCK':
        out = [['typed', uleb(t), t, blob(rng, n)] for n in TYPED_LENS for t in (0, 0x7f, 0x80, 2**32 - 1)]
        out += [['typed', uleb(5, 2), 5, blob(rng, 4)]]
        return out
    if kind == 'WASM':
        out = [['wleb', tag, uleb(v), v] for tag in (0, 1, 2) for v in (0, 1, 127, 128, 2**32 - 1, 2**32, 2**64)]
        out += [['wleb', 1, uleb(7, 2), 7]]
        out += [['w32', v] for v in fixed_boundary('U4', cfg)]
        return out
    return [['i', v] for v in fixed_boundary(kind, cfg)]


def boundary_tuples(rng, kinds, cfg):
    if not kinds:
        return [[]]
    per = [boundary_vals(rng, k, cfg) for k in kinds]
    if len(per) == 1:
        return [[v] for v in per[0]]
    # every boundary of each position, the other positions rotating through theirs
    out = []
    n = max(len(p) for p in per)
    for i in range(n):
        out.append([p[i % len(p)] for p in per])
        out.append([p[(i * 7 + j * 3 + 1) % len(p)] for j, p in enumerate(per)])
    return out


def nested_bodies(rng, opc, table, cfg):
    """bodies for an entry-value opcode: empty, simple, every depth up to MAXDEPTH, padded lengths"""
    lit = ['op', 0x30, []]
    c1 = ['op', 0x08, [['i', 0xf0]]]
    breg = ['op', 0x75, [['leb', sleb(-300), -300]]]
    nested_opcs = sorted(o for o, (_, ks) in table.items() if ks == ['NESTED'])
    out = [['nest', opc, 0, []], ['nest', opc, 0, [lit]], ['nest', opc, 0, [c1, breg, lit]],
           ['nest', opc, 1, []], ['nest', opc, 2, [breg]],
           ['nest', opc, 0, [['op', 0x9e, [['blk', uleb(130), blob(rng, 130)]]], lit]]]    # body longer than 127
    for depth in range(2, MAXDEPTH + 1):
        cur = [c1, lit]
        for d in range(depth - 1):
            cur = [lit, ['nest', nested_opcs[(d + depth) % len(nested_opcs)], d % 2, cur], breg]
        out.append(['nest', opc, 0, cur])
    return out


def rand_val(rng, kind, cfg):
    r = rng.random()
    if kind == 'ULEB':
        v = rng.choice(ULEB_B) if r < 0.3 else rng.getrandbits(rng.choice([3, 7, 8, 14, 21, 32, 64, 70]))
        return ['leb', uleb(v, rng.choice([0, 0, 0, 0, 1, 2])), v]
    if kind == 'SLEB':
        v = rng.choice(SLEB_B) if r < 0.3 else rng.getrandbits(rng.choice([3, 6, 7, 13, 14, 32, 64, 70])) * rng.choice([1, -1])
        return ['leb', sleb(v, rng.choice([0, 0, 0, 0, 1, 2])), v]
    if kind == 'BLOCK':
        n = rng.choice(BLOCK_LENS[:9]) if r < 0.3 else rng.randint(0, 40)
        return ['blk', uleb(n, rng.choice([0, 0, 0, 1])), blob(rng, n)]
    if kind == 'TYPEDBLOCK':
        n = rng.choice(TYPED_LENS) if r < 0.3 else rng.randint(0, 20)
        t = rng.getrandbits(rng.choice([5, 7, 16, 32]))
        return ['typed', uleb(t, rng.choice([0, 0, 1])), t, blob(rng, n)]
    if kind == 'WASM':
        if r < 0.3:
            return ['w32', rng.getrandbits(32)]
        v = rng.getrandbits(rng.choice([3, 7, 14, 32]))
        return ['wleb', rng.randint(0, 2), uleb(v, rng.choice([0, 0, 1])), v]
    n = width(kind, cfg)
    if r < 0.4:
        return ['i', rng.choice(fixed_boundary(kind, cfg))]
    m = 1 << (8 * n)
    v = rng.getrandbits(8 * n)
    if kind[0] == 'S':
        v -= m // 2
    return ['i', v]


def rand_op(rng, table, opcodes, with_operands, cfg, depth, maxdepth):
    while True:
        if depth < maxdepth and rng.random() < 0.22:
            opc = rng.choice([o for o in with_operands if table[o][1] == ['NESTED']])
        else:
            opc = rng.choice(with_operands if rng.random() < 0.6 else opcodes)
        kinds = table[opc][1]
        if kinds == ['NESTED']:
            if depth >= maxdepth:
                continue
            n = rng.choice([0, 1, 1, 2, 3, 6])
            return ['nest', opc, rng.choice([0, 0, 0, 1, 2]),
                    [rand_op(rng, table, opcodes, with_operands, cfg, depth + 1, maxdepth) for _ in range(n)]]
        return ['op', opc, [rand_val(rng, k, cfg) for k in kinds]]


def _table(ctx):
    t = getattr(ctx, '_c12_table', None)
    if t is None:
        t = {row[0]: (row[1], list(row[2])) for row in ctx.driver.one(['table'])}
        ctx._c12_table = t
    return t


def depth_of(ops):
    d = 0
    for o in ops:
        if o[0] == 'nest':
            d = max(d, 1 + depth_of(o[3]))
    return d


def count_ops(ops):
    return sum(1 + (count_ops(o[3]) if o[0] == 'nest' else 0) for o in ops)


def flat_ops(ops):
    """all operations, innermost first"""
    out = []
    for o in ops:
        if o[0] == 'nest':
            out += flat_ops(o[3])
        out.append(o)
    return out


# ------------------------------------------------------------------ ill-formed expressions (Spec bexpr) and histories
def wrap_bad(rng, core, depth, nested_opcs, mk_pre, mk_rest):
    """put an ill-formed expression inside [depth] entry-value blocks of the right announced length"""
    b = core
    for _ in range(depth):
        b = ['inner', mk_pre(), rng.choice(nested_opcs), rng.choice([0, 0, 0, 1, 2]), b, mk_rest()]
    return b


def bad_depth(b):
    return 1 + bad_depth(b[4]) if b[0] == 'inner' else 0


def gen_bad(ctx, table, opcodes, with_operands):
    rng = ctx.rng
    cases = []
    nested_opcs = sorted(o for o, (_, ks) in table.items() if ks == ['NESTED'])
    block_opcs = nested_opcs + sorted(o for o, (_, ks) in table.items() if ks == ['BLOCK'])
    lit0 = ['op', 0x30, []]

    def mk_pre_for(cfg):
        return lambda: [rand_op(rng, table, opcodes, with_operands, cfg, 0, 1) for _ in range(rng.choice([0, 0, 1, 2, 3]))]

    def mk_rest():
        return blob(rng, rng.choice([0, 0, 1, 2, 6]))
    # a byte that is not an operation, in opcode position
    for opc in range(256):
        if opc in table:
            continue
        for i, cfg in enumerate(CONFIGS):
            c = list(cfg)
            cases.append(('bad', [c, ['opcode', [], opc, b'']]))
            cases.append(('bad', [c, ['opcode', [lit0], opc, b'\x31']]))
            cases.append(('bad', [c, ['inner', [], nested_opcs[i % len(nested_opcs)], 0, ['opcode', [], opc, b'\x30'], b'']]))
        cfg = CONFIGS[opc % len(CONFIGS)]
        mk_pre = mk_pre_for(cfg)
        cases.append(('bad', [list(cfg), ['opcode', mk_pre(), opc, mk_rest()]]))
        for depth in (2, 3, 5):
            cases.append(('bad', [list(cfg), wrap_bad(rng, ['opcode', mk_pre(), opc, mk_rest()], depth, nested_opcs,
                                                      mk_pre, mk_rest)]))
    # a block announced longer than what is left
    shorts = [(b'', 1), (b'\x50\x51', 3), (b'\x50\x51', 1), (b'\x96' * 127, 1), (b'\x96' * 126, 2), (b'\x30', 2**32),
              (b'', 2**64)]
    for opc in block_opcs:
        for cfg in CONFIGS:
            mk_pre = mk_pre_for(cfg)
            for j, (body, excess) in enumerate(shorts):
                for depth in range(0, MAXDEPTH + 1):
                    plain = depth <= 1
                    core = ['trunc', [] if plain else mk_pre(), opc, 0 if plain else rng.choice([0, 0, 1, 2]), excess, body]
                    cases.append(('bad', [list(cfg), wrap_bad(rng, core, depth, nested_opcs,
                                                              (lambda: []) if plain else mk_pre,
                                                              (lambda: b'') if plain else mk_rest)]))
    # random
    unassigned = [o for o in range(256) if o not in table]
    for _ in range(ctx.scale(300, 6000)):
        cfg = rng.choice(CONFIGS)
        mk_pre = mk_pre_for(cfg)
        if rng.random() < 0.5:
            core = ['opcode', mk_pre(), rng.choice(unassigned), mk_rest()]
        else:
            body = blob(rng, rng.choice([0, 1, 2, 5, 40, 127, 128, 300]))
            core = ['trunc', mk_pre(), rng.choice(block_opcs), rng.choice([0, 0, 1, 2]),
                    rng.choice([1, 1, 2, 3, 100, 127, 128, 2**14, 2**32, 2**64]), body]
        cases.append(('bad', [list(cfg), wrap_bad(rng, core, rng.randint(0, MAXDEPTH), nested_opcs, mk_pre, mk_rest)]))
    return cases


def gen_hist(ctx, table, opcodes, with_operands):
    rng = ctx.rng
    c = [1, 8, 32]
    cases = [
        # a consumer resolving DW_OP_addrx in place; trimming a blob / a nested expression
        ('hist', [c, [[['op', 0xa1, [['leb', uleb(5), 5]]], ['op', 0x23, [['leb', uleb(144), 144]]], ['op', 0x9f, []]]],
                  [[0, 0], [0, 0], [1, 0], [0, 0]]]),
        ('hist', [c, [[['nest', 0xa3, 0, [['op', 0x55, []], ['op', 0x96, []]]], ['op', 0x9e, [['blk', uleb(3), b'\xaa\xbb\xcc']]]]],
                  [[0, 0], [0, 0]]]),
    ]
    for _ in range(ctx.scale(500, 8000)):
        cfg = list(rng.choice(CONFIGS))
        exprs = []
        for _e in range(rng.choice([1, 1, 2, 3])):
            n = rng.choice([1, 1, 2, 3, 5, 12])
            exprs.append([rand_op(rng, table, opcodes, with_operands, cfg, 0, rng.choice([0, 1, 2, 3])) for _o in range(n)])
        order = [[0 if rng.random() < 0.75 else 1, rng.randrange(len(exprs))] for _s in range(rng.randint(2, 6))]
        order.append(list(rng.choice(order)))            # at least one (parser, expression) pair is repeated
        if rng.random() < 0.5:
            order.append(list(order[0]))
        cases.append(('hist', [cfg, exprs, order]))
    # other activity of the process between parses (steps whose first element is a string; the stateless answer does not
    # change): a .debug_frame section decoded through CallFrameInfo over the parser's structs configuration (CIE version
    # 1/3/4, a v4 address_size equal to or different from the unit's, DWARF32/64 entries, with/without an FDE), other
    # DWARFStructs configurations requested, a parser deep-copied / replaced by a new one, a garbage collection.  Every
    # such history ends by parsing a probe expression that uses every operand kind on an old and on a new parser.
    for cfg in CONFIGS:
        for ver in (1, 3, 4):
            for asz in ((4, 8) if ver == 4 else (cfg[1],)):
                for fde in (0, 1):
                    order = [[0, 0], ['frame', cfg[2], ver, asz, fde], [0, 0], ['renew', 1], [1, 0]]
                    cases.append(('hist', [list(cfg), [probe_expr(rng, table, cfg)], order]))
    for _ in range(ctx.scale(250, 4000)):
        cfg = rng.choice(CONFIGS)
        exprs = [[rand_op(rng, table, opcodes, with_operands, cfg, 0, rng.choice([0, 1, 2]))
                  for _o in range(rng.choice([1, 2, 3, 5]))] for _e in range(rng.choice([0, 1, 2]))]
        exprs.append(probe_expr(rng, table, cfg))
        order = []
        for _s in range(rng.randint(2, 7)):
            r = rng.random()
            if r < 0.45:
                order.append([rng.choice([0, 0, 1]), rng.randrange(len(exprs))])
            elif r < 0.75:
                ver = rng.choice([1, 3, 4, 4, 4])
                order.append(['frame', rng.choice([cfg[2], cfg[2], 32, 64]), ver,
                              rng.choice([4, 8]) if ver == 4 else cfg[1], rng.choice([0, 1])])
            elif r < 0.82:
                order.append(['structs', rng.choice([0, 1]), rng.choice([32, 64]), rng.choice([4, 8]), rng.choice([2, 3, 4, 5])])
            elif r < 0.97:             # (a full collection costs ~0.2 s on the harness's heap: keep it rare)
                order.append([rng.choice(['renew', 'deepcopy']), rng.choice([0, 1])])
            else:
                order.append(['gc'])
        p = len(exprs) - 1
        order += [[0, p], ['renew', 1], [1, p]]
        cases.append(('hist', [list(cfg), exprs, order]))
    return cases


def probe_expr(rng, table, cfg):
    """a well-formed expression with one operation of every operand-kind list of the table (address- and
    offset-sized operands at full width, also inside an entry-value block)"""
    by_kinds = {}
    for o in sorted(table):
        by_kinds.setdefault(tuple(table[o][1]), o)
    ops = []
    for ks, o in sorted(by_kinds.items()):
        if ks and ks != ('NESTED',):
            ops.append(['op', o, [['i', fixed_boundary(k, cfg)[5]] if k in ('ADDR', 'OFFSET') else rand_val(rng, k, cfg)
                                  for k in ks]])
    nested = by_kinds[('NESTED',)]
    return ops + [['nest', nested, 0, [o for o in ops if table[o[1]][1][0] in ('ADDR', 'OFFSET', 'U8', 'SLEB')]],
                  ['op', 0x9f, []]]


def frame_section(le, fmt, ver, asz, fde):
    """a small .debug_frame: one CIE of the given version (a v4 CIE states address_size [asz]) in a DWARF32/64 entry,
    optionally one FDE laid out for [asz]-byte addresses"""
    import struct
    e = '<' if le else '>'
    idw = 'Q' if fmt == 64 else 'I'

    def entry(body):
        body += b'\x00' * (-len(body) % asz)          # DW_CFA_nop padding
        if fmt == 64:
            return b'\xff\xff\xff\xff' + struct.pack(e + 'Q', len(body)) + body
        return struct.pack(e + 'I', len(body)) + body
    cie = struct.pack(e + idw, (1 << (64 if fmt == 64 else 32)) - 1) + bytes([ver]) + b'\x00'
    if ver >= 4:
        cie += bytes([asz, 0])
    cie += b'\x01\x7c\x08' + b'\x0c\x07\x08'         # code align 1, data align -4, RA r8; DW_CFA_def_cfa r7, 8
    sec = entry(cie)
    if fde:
        order = 'little' if le else 'big'
        sec += entry(struct.pack(e + idw, 0) + (0x401000).to_bytes(asz, order) + (0x40).to_bytes(asz, order) +
                     b'\x41\x0e\x10')               # advance_loc 1; def_cfa_offset 16
    return sec


def _scramble(ops):
    """what a caller may do with a result it was handed: edit every mutable part in place (operand values,
    blobs, nested operation lists, the args lists themselves, the outer list).  Immutable parts are left alone."""
    for o in list(ops):
        args = getattr(o, 'args', None)
        if not isinstance(args, list):
            continue
        for i, a in enumerate(list(args)):
            try:
                if isinstance(a, list):
                    if a and not isinstance(a[0], int):
                        _scramble(list(a))           # the nested operations' own args
                    if a:
                        a.pop()
                    a.insert(0, 0xEE)
                    a.reverse()
                elif isinstance(a, int):
                    args[i] = a ^ 0x5a5a
            except (TypeError, AttributeError):
                pass
        try:
            args.append('edited-by-caller')
        except (TypeError, AttributeError):
            pass
    try:
        ops.clear()
    except (TypeError, AttributeError):
        pass


# ------------------------------------------------------------------ case generation
def corpus(ctx):
    """the deviations seen by reading (DESIGN 5), kept as fixed first cases"""
    c64 = [1, 8, 64]
    c32 = [1, 4, 32]
    return [
        ('ops', [c32, [['op', 0x94, [['i', 0x80]]]]]),
        ('ops', [c32, [['op', 0x95, [['i', 0xff]]]]]),
        ('ops', [c32, [['op', 0xa2, [['leb', uleb(1), 1]]]]]),
        ('ops', [c32, [['op', 0xa7, [['i', 4], ['leb', uleb(0x20), 0x20]]]]]),
        ('ops', [c32, [['op', 0xa9, [['leb', uleb(0x20), 0x20]]]]]),
        ('ops', [c64, [['op', 0xfa, [['i', 0x04030201]]], ['op', 0x96, []]]]),
    ]


def gen(ctx):
    rng = ctx.rng
    table = _table(ctx)
    cases = []
    nop = ['op', 0x96, []]
    # (a) exhaustive: 256 opcodes x boundary operand tuples x 8 configurations
    for opc in range(256):
        for cfg in CONFIGS:
            c = list(cfg)
            if opc not in table:
                cases.append(('raw', [c, bytes([opc])]))
                cases.append(('raw', [c, bytes([opc]) + blob(rng, 12)]))
                cases.append(('raw', [c, b'\x30' + bytes([opc]) + b'\x00' * 9]))
                continue
            kinds = table[opc][1]
            if kinds == ['NESTED']:
                for o in nested_bodies(rng, opc, table, cfg):
                    cases.append(('ops', [c, [o, nop]]))
                    cases.append(('ops', [c, [o]]))
                continue
            for vals in boundary_tuples(rng, kinds, cfg):
                cases.append(('ops', [c, [['op', opc, vals], nop]]))
            cases.append(('ops', [c, [['op', opc, boundary_tuples(rng, kinds, cfg)[0]]]]))
    # (b) random sequences, nesting depth <= 5
    opcodes = sorted(table)
    with_operands = [o for o in opcodes if table[o][1]]
    nseq = ctx.scale(1500, 40000)
    for i in range(nseq):
        cfg = list(rng.choice(CONFIGS))
        r = rng.random()
        n = 0 if i < 8 else (rng.randint(1, 6) if r < 0.6 else rng.randint(7, 40) if r < 0.95 else rng.randint(100, 300))
        maxdepth = rng.choice([0, 1, 2, 3, 4, 5, 5])
        ops = [rand_op(rng, table, opcodes, with_operands, cfg, 0, maxdepth) for _ in range(n)]
        cases.append(('ops', [cfg, ops]))
    # (c) malformed stream: truncations (taken from the encoded bytes in evaluate), unknown opcodes, bad WASM tags
    for i in range(ctx.scale(150, 2000)):
        cfg = list(rng.choice(CONFIGS))
        ops = [rand_op(rng, table, opcodes, with_operands, cfg, 0, 3) for _ in range(rng.randint(1, 4))]
        cases.append(('trunc', [cfg, ops, rng.random()]))
    for cfg in CONFIGS:
        for tag in (4, 5, 0x7f, 0x80, 0xff):
            cases.append(('raw', [list(cfg), bytes([0xed, tag, 1, 2, 3, 4])]))
        cases.append(('raw', [list(cfg), bytes([0xa3, 3, 0x30, 0x04, 0x30])]))        # unknown opcode inside a nested block
        cases.append(('raw', [list(cfg), bytes([0xa3, 5, 0x30])]))                    # nested block longer than the stream
        cases.append(('raw', [list(cfg), bytes([0x9e, 0xff, 0xff, 0xff, 0x7f, 1, 2])]))  # huge blob length
    # (d) ill-formed expressions that must be refused; (e) call histories with the caller editing results
    cases += gen_bad(ctx, table, opcodes, with_operands)
    cases += gen_hist(ctx, table, opcodes, with_operands)
    return cases


# ------------------------------------------------------------------ evaluation
def _norm(v):
    """model/spec trees: an empty nested expression and an empty blob are both Python []"""
    if isinstance(v, list):
        if len(v) == 2 and v[0] == 'e' and v[1] == []:
            return ['b', b'']
        return [_norm(x) for x in v]
    return v


def _conv_ops(lst):
    return [[o.op, o.op_name, [_conv_arg(a) for a in o.args], o.offset] for o in lst]


def _conv_arg(a):
    if isinstance(a, int):
        return a
    if isinstance(a, list):
        if all(isinstance(x, int) for x in a):
            return ['b', bytes(a)]
        return ['e', _conv_ops(a)]
    return ['unexpected', repr(a)]


def _parsers():
    from elftools.dwarf.dwarf_expr import DWARFExprParser
    from elftools.dwarf.structs import DWARFStructs
    out = {}
    for le, addr, fmt in CONFIGS:
        out[(le, addr, fmt)] = DWARFExprParser(DWARFStructs(little_endian=bool(le), dwarf_format=fmt, address_size=addr))
    return out


def _new_parser(cfg):
    from elftools.dwarf.dwarf_expr import DWARFExprParser
    from elftools.dwarf.structs import DWARFStructs
    return DWARFExprParser(DWARFStructs(little_endian=bool(cfg[0]), dwarf_format=cfg[2], address_size=cfg[1]))


def _other_activity(st, cfg, objs):
    """a step of a history that is not a parse: other use of the library in the same process.  Its own outcome is
    not C12's business (exceptions are swallowed); the parses after it are."""
    import copy
    import gc
    import io
    if st[0] not in ('frame', 'structs', 'renew', 'deepcopy', 'gc'):
        raise ValueError(st)
    try:
        if st[0] == 'frame':
            from elftools.dwarf.callframe import CallFrameInfo
            from elftools.dwarf.structs import DWARFStructs
            data = frame_section(bool(cfg[0]), st[1], st[2], st[3], st[4])
            base = DWARFStructs(little_endian=bool(cfg[0]), dwarf_format=cfg[2], address_size=cfg[1])
            for e in CallFrameInfo(io.BytesIO(data), len(data), 0, base).get_entries():
                e.get_decoded()
        elif st[0] == 'structs':
            from elftools.dwarf.structs import DWARFStructs
            DWARFStructs(little_endian=bool(st[1]), dwarf_format=st[2], address_size=st[3], dwarf_version=st[4])
        elif st[0] == 'renew':
            objs[st[1]] = _new_parser(cfg)
        elif st[0] == 'deepcopy':
            objs[st[1]] = copy.deepcopy(objs[st[1]])
        else:
            gc.collect()
    except Exception:
        pass


def _verdict(r):
    """accept/reject: which exception refuses an ill-formed expression is not part of the property"""
    return ['rejected'] if isinstance(r, (list, tuple)) and r and r[0] == 'err' else r


# how the expression is handed to parse_expr: everything bytes(expr) accepts (the docstring's list of integers, the
# bytes-like objects, and one-shot iterables).  The form is a function of the case, so a replay passes it the same way.
FORMS = ('list', 'list', 'list', 'tuple', 'bytes', 'bytearray', 'memoryview', 'iter', 'generator', 'map', 'chain')


def form_of(abstract):
    import json
    import zlib
    from tools.lib import sx
    # hashed in the JSON form a replay file holds, so that the replayed case gets the same form
    return FORMS[zlib.crc32(json.dumps(sx.jsonable(abstract), sort_keys=True, default=str).encode()) % len(FORMS)]


def _as_form(data, form):
    import itertools
    data = bytes(data)
    if form == 'list':
        return list(data)
    if form == 'tuple':
        return tuple(data)
    if form == 'bytes':
        return data
    if form == 'bytearray':
        return bytearray(data)
    if form == 'memoryview':
        return memoryview(data)
    if form == 'iter':
        return iter(list(data))
    if form == 'generator':
        return (b for b in data)
    if form == 'map':
        return map(int, data)
    if form == 'chain':
        return itertools.chain(data[:len(data) // 2], list(data[len(data) // 2:]))
    raise ValueError(form)


def _impl(parsers, cfg, data, form='list'):
    p = parsers[(int(cfg[0]), cfg[1], cfg[2])]
    return impl_call(lambda: ['ok', _conv_ops(p.parse_expr(_as_form(data, form)))])


def _blame(ctx, parsers, table, cfg, ops, impl=None):
    """finding key of a failing in-domain case: the first operation (innermost first) that also fails alone.
    Each classification costs a driver round trip: after BLAME_CAP failing cases (everything fails, e.g. an empty
    dispatch table) the remaining ones are only sorted by their outcome."""
    n = getattr(ctx, '_c12_blames', 0)
    ctx._c12_blames = n + 1
    if n >= BLAME_CAP:
        if n == BLAME_CAP:
            ctx.notes.append('more than %d failing cases: the later ones are not classified per operation' % BLAME_CAP)
        if impl is None:
            impl = _impl(parsers, cfg, ctx.driver.one(['case', cfg, ops])[2])
        return 'unclassified-after-%d-failures-%s' % (BLAME_CAP, impl[1] if impl[0] == 'err' else 'wrong-result')
    seen = set()
    singles = []
    for o in flat_ops(ops):
        h = repr(o)
        if h not in seen:
            seen.add(h)
            singles.append(o)
    ans = ctx.driver.batch([['case', cfg, [o]] for o in singles])
    for o, a in zip(singles, ans):
        wf, canon, data, expected, model, reenc = a
        impl = _impl(parsers, cfg, data)
        if impl != _norm(expected):
            name = table.get(o[1], ('?',))[0]
            if impl == ['err', 'KeyError']:
                return 'op-0x%02x-%s-unsupported' % (o[1], name)
            if o[0] == 'nest':
                return 'op-0x%02x-%s-nested-expression' % (o[1], name)
            return 'op-0x%02x-%s-operand-decoding' % (o[1], name)
    return 'sequence-or-offsets'


def evaluate(ctx, cases):
    drv = ctx.driver
    table = _table(ctx)
    parsers = _parsers()
    reqs = []
    slots = []
    cases = [('ops' if kind == 'reencode' else kind, a) for kind, a in cases]   # a replayed re-encode echo is an ops case
    for kind, a in cases:
        slots.append(len(reqs))
        if kind in ('ops', 'trunc'):
            reqs.append(['case', a[0], a[1]])
        elif kind == 'raw':
            reqs.append(['raw', a[0], a[1]])
        elif kind == 'bad':
            reqs.append(['bad', a[0], a[1]])
        elif kind == 'hist':
            reqs += [['case', a[0], ops] for ops in a[1]]
        else:
            raise ValueError(kind)
    flat_answers = drv.batch(reqs)
    answers = [flat_answers[s:s + len(a[1])] if kind == 'hist' else flat_answers[s]
               for (kind, a), s in zip(cases, slots)]
    # truncated streams need a second model call on the cut bytes
    cut_idx, cut_reqs = [], []
    for i, ((kind, a), ans) in enumerate(zip(cases, answers)):
        if kind == 'trunc':
            data = ans[2]
            cut = min(len(data) - 1, int(a[2] * len(data))) if data else 0
            cut_idx.append(i)
            cut_reqs.append(['raw', a[0], data[:max(cut, 0)]])
    cut_ans = dict(zip(cut_idx, drv.batch(cut_reqs)))
    for i, ((kind, a), ans) in enumerate(zip(cases, answers)):
        cfg = a[0]
        ctx.bump('config', '%s/addr%d/dwarf%d' % ('LE' if cfg[0] else 'BE', cfg[1], cfg[2]))
        if kind == 'ops':
            wf, canon, data, expected, model, reenc = ans
            ops = a[1]
            if not wf:
                raise RuntimeError('C12 generator produced a case outside the Coq wf domain: %r' % (a,))
            form = form_of(a)
            ctx.bump('expr_passed_as', form)
            impl = _impl(parsers, cfg, data, form)
            spec = _norm(expected)
            model = _norm(model)
            key = None
            if impl != spec:
                if form != 'list' and _impl(parsers, cfg, data) == spec:
                    key = 'expr-passed-as-%s' % form          # right for a list, wrong for this form of the same bytes
                else:
                    key = _blame(ctx, parsers, table, cfg, ops, impl)
            n = count_ops(ops)
            ctx.bump('ops_per_expr', n if n < 3 else '3-9' if n < 10 else '10-99' if n < 100 else '100+')
            ctx.bump('nesting_depth', depth_of(ops))
            ctx.bump('bytes', len(data) if len(data) < 2 else '2-15' if len(data) < 16 else '16-255' if len(data) < 256 else '256+')
            ctx.record('ops', a, impl=impl, spec=spec, model=model, in_domain=True,
                       nontrivial=n >= 2 or any(o[0] == 'nest' or o[2] for o in ops), key=key,
                       detail={'expr_passed_as': form})
            # re-encoding the expected parse gives the input back when every LEB128 is minimal (echo of C12_reencode)
            if canon:
                ctx.bump('reencode_checked', 'canonical')
                if reenc != data:
                    ctx.record('reencode', a, impl=impl, spec=['reencode', data], model=['reencode', reenc],
                               in_domain=True, nontrivial=True, key='reencode-echo')
        elif kind == 'trunc':
            data = ans[2]
            cut = min(len(data) - 1, int(a[2] * len(data))) if data else 0
            data = data[:max(cut, 0)]
            model = _norm(cut_ans[i])
            impl = _impl(parsers, cfg, data)
            ctx.bump('malformed', 'truncated')
            ctx.record('trunc', a, impl=impl, spec=model, model=model, in_domain=False, nontrivial=True)
        elif kind == 'bad':
            wf, data, why, model = ans
            if not wf:
                raise RuntimeError('C12 generator produced an ill-formed case outside the Coq wf_bad domain: %r' % (a,))
            model = _norm(model)
            form = form_of(a)
            ctx.bump('expr_passed_as', form)
            impl = _impl(parsers, cfg, data, form)
            ctx.bump('illformed', why)
            ctx.bump('illformed_depth', bad_depth(a[1]))
            # C12_illformed_rejected: refused, never reported as some sequence of operations
            ctx.record('bad', a, impl=_verdict(impl), spec=['rejected'], model=_verdict(model), in_domain=True,
                       nontrivial=True, key='illformed-%s-accepted' % why)
            # which exception: model vs implementation only
            ctx.record('raw', [cfg, data], impl=impl, spec=model, model=model, in_domain=False, nontrivial=len(data) > 1)
        elif kind == 'hist':
            exprs, order = a[1], a[2]
            if not all(x[0] for x in ans):
                raise RuntimeError('C12 generator produced a case outside the Coq wf domain: %r' % (a,))
            datas = [x[2] for x in ans]
            expected = [_norm(x[3]) for x in ans]
            models = [_norm(x[4]) for x in ans]
            if getattr(ctx, '_c12_process_changed', False):
                # an earlier history changed what parsers of OTHER objects return (process-wide state): what follows
                # in this process says nothing about the case itself and would not replay
                ctx.bump('history_skipped', 'process-wide state changed by an earlier history')
                continue
            parses = [st for st in order if not isinstance(st[0], str)]
            used = sorted(set(ei for _, ei in parses))
            alone_before = [ei for ei in used if _impl(parsers, cfg, datas[ei]) != expected[ei]]
            objs = [_new_parser(cfg), _new_parser(cfg)]

            def run():
                out = []
                for st in order:
                    if isinstance(st[0], str):
                        _other_activity(st, cfg, objs)
                        continue
                    pi, ei = st
                    arg = list(datas[ei])
                    r = objs[pi].parse_expr(arg)
                    out.append(_conv_ops(r))
                    _scramble(r)                       # the caller owns what it was handed...
                    arg[:] = [0x96] * (len(arg) + 1)   # ...and what it passed in
                return ['ok', out]
            impl = impl_call(run)
            spec = ['ok', [expected[ei][1] for _, ei in parses]]
            bad_m = [m for m in models if m[0] != 'ok']
            model = bad_m[0] if bad_m else ['ok', [models[ei][1] for _, ei in parses]]
            key = None
            if impl != spec:
                if alone_before:                       # wrong already as a first parse on an unrelated parser
                    key = _blame(ctx, parsers, table, cfg, exprs[alone_before[0]],
                                 _impl(parsers, cfg, datas[alone_before[0]]))
                else:
                    key = 'history-dependence'
                    if any(_impl(parsers, cfg, datas[ei]) != expected[ei] for ei in used):
                        ctx._c12_process_changed = True
                        ctx.notes.append('a history changed the answers of parsers it never touched (process-wide state); '
                                         'the remaining histories of this run were skipped')
            for st in order:
                if isinstance(st[0], str):
                    ctx.bump('history_other_activity', st[0] if st[0] != 'frame' else
                             'frame-v%d-%s' % (st[2], 'same-addr' if st[3] == cfg[1] else 'other-addr'))
            ctx.bump('history_calls', len(parses))
            ctx.bump('history_repeats', len(parses) - len(set(map(tuple, parses))))
            ctx.record('hist', a, impl=impl, spec=spec, model=model, in_domain=True, nontrivial=True, key=key)
        else:
            data = a[1]
            model = _norm(ans)
            impl = _impl(parsers, cfg, data)
            ctx.bump('malformed', 'raw')
            ctx.record('raw', a, impl=impl, spec=model, model=model, in_domain=False, nontrivial=len(data) > 1)
