"""C01 correspondence: ELF file, section and program headers are decoded exactly as encoded.

A case is an abstract image: class, byte order, every file-header field, the sections (name,
every header field), the segments, the name-table index, plus an assembly plan (file length,
filler seed, body blobs at chosen offsets).  Header records are encoded by the Coq spec encoder
(driver op "encode" = Fmt.encode_layout of the gABI layouts); the harness only places them at
the offsets the abstract image names.  The driver's wf_image certifies that the bytes carry the
abstract content (= the hypothesis of the theorems in Props/C01.v); model and spec answers come
from the same driver call; impl = the real ELFFile on BytesIO(img)."""
import io, random, struct
from tools.lib.framework import impl_call

CLAIMED = True
CONFIG = {'assumptions': ['names are compared as UTF-8 bytes; generated names are valid UTF-8 (the errors="replace" path is outside the property)',
                          'stream = BytesIO over the assembled image; files shorter than 2^63 bytes',
                          'well-formed = Spec/C01Image.v wf_image: records at e_shoff + i*e_shentsize / e_phoff + j*e_phentsize, '
                          'names NUL-terminated in the designated string table, and what a specialised section object needs to exist '
                          '(valid sh_link target, entry size, readable compression/hash header, attributes version byte)']}
LEVEL = {'text': 'Machine-checked (Coq 8.16, no axioms) theorems over ALL byte lists img and abstract images s with wf_image img s = true '
                 '(both classes, both byte orders, any e_machine/OS ABI value, header tables anywhere, entry sizes >= standard, any counts, the '
                 'three extended-numbering escapes, arbitrary filler): the model of ELFFile(stream) succeeds and reports class, byte order and '
                 'every file-header field (C01_ehdr_exact); section header i / program header j are decoded to every encoded field '
                 '(C01_shdr_at_exact, C01_phdr_at_exact); num_sections/num_segments/get_shstrndx incl. e_shnum=0, PN_XNUM, SHN_XINDEX '
                 '(C01_counts_exact, thresholds 0xff00/0xffff explicit in C01_escape_thresholds); the machine -> sh_type/p_type dictionary maps obey '
                 'the gABI processor-range rule and hold the supplements\' codes (C01_machine_sh_types, C01_machine_p_types, C01_machine_anchors); names, get_section/get_segment objects with their kind, iter_sections/iter_segments in file order with the '
                 'type filter = filter (C01_names_exact, C01_section_exact, C01_segment_exact, C01_iter_*_exact); index and name lookups agree '
                 'with the enumeration, last section bearing a name wins (C01_index_agrees, C01_lookup_agrees, C01_lookup_meaning); for every call '
                 'history on one object (abandoned/full enumerations, lookups, any order) each answer is the history-free one and '
                 '_section_name_map is None or the complete map (C01_history_independent, model state in Model/C01History.v); enum fields '
                 'decode to a name of the dictionary bound to the field or the raw integer (C01_enum_fields, C01_enum_named_or_raw, '
                 'C01_enum_adapter). Unconditional (any stream): the class of every object _make_section/_make_segment return is the one the '
                 'decoded type calls for, incl. the .stab rule (C01_dispatch_kind, C01_segment_kind). Gen layouts = gABI tables '
                 '(C01_gen_layouts_match_gabi). The model is a hand transliteration of elffile.py and of the section/segment constructors, pinned '
                 'to the code by differential correspondence on synthesized images; layouts, enum dictionaries, machine->dictionary maps and the '
                 '_section_offset/_segment_offset bodies are regenerated from the live code.',
         'design_ref': '4.1', 'technique': 'Coq proof (generic layout round trip, layout predicates) + extracted-model correspondence',
         'note': 'Trusted: Coq kernel, ExtrOcamlBasic extraction, harness, Gen translators. No axioms, nothing _partial. Names of codes are '
                 'relative to the dictionaries regenerated from the code (C17 ties those to the registries). Only pinned by correspondence '
                 '(not proved): that the hand model equals the Python code; independence of the stream kind the bytes come from (BytesIO, real '
                 'files, mmap, gzip, foreign descriptor: a dimension of the correspondence); independence of two live ELFFile objects (the model has no shared '
                 'state; pinned by the pair stream); behaviour on malformed images (model_drift stream). The theorems '
                 'require, per specialised section kind, what its constructor checks (valid sh_link target, entry size, readable '
                 'compression/hash header, attributes version byte) — part of wf_image.'}
RULE = ('cases: synthesized ELF images = class x byte order x e_machine (the 5 table-switching machines, other named, unknown numbers) x '
        'OS ABI x header-table placement (before/after/between bodies, garbage filler and gaps) x entry size standard..+64 x counts 0,1,few '
        '(escape e_shnum=0/PN_XNUM/SHN_XINDEX forced at small counts; true >=0xff00 sections / >=0xffff segments in thorough) x random '
        'field values incl. unknown and processor-specific type codes x duplicate/empty/non-ASCII/long names; every processor-supplement '
        'code of Spec/C01Machines.v on its machine (expected name from the Coq spec, kind anchor); real 0xfeff..0x10000-entry tables at the '
        'boundary values of the three escape rules (kind edge, every run); section names of 65535..131072 bytes (kind longname); on every well-formed image a call history on ONE object '
        '(enumerations abandoned after k items, lookups first on a fresh object, names that are proper suffixes of stored names or strings '
        'of the name table naming no section); pairs of live objects of different table-switching machines read alternately (kind pair); '
        'plus malformed variants '
        '(out-of-domain). distinct = hash(kind, abstract); non-trivial = at least one section or segment')

EM_SPECIAL = [40, 183, 62, 8, 243]            # ARM, AARCH64, X86_64, MIPS, RISCV
EM_NAMED = [0, 1, 2, 3, 4, 20, 21, 22, 41, 42, 43, 50, 93, 94, 164, 224, 247, 252, 258, 21569, 118, 10]
WIDE_HASH = (22, 41)                          # EM_S390, EM_ALPHA: 64-bit SysV hash entries in ELF64
EM_UNKNOWN = [11, 12, 16, 24, 35, 121, 130, 145, 159, 182, 184, 225, 242, 244, 259, 0x1234, 0xfffe, 0xffff]
OSABI = [0, 0, 0, 1, 2, 3, 6, 9, 12, 64, 97, 255, 5, 18, 100, 200]
E_TYPE = [0, 1, 2, 3, 4, 0xff00, 0xffff, 5, 0x1234, 0xfe00]

SHT_PLAIN = [0, 1, 1, 1, 3, 7, 8, 10, 14, 15, 16, 17, 18, 20, 0x60000000, 0x6ffffff5, 0x6ffffff7, 0x80000000, 0xffffffff]
SHT_PROC = [0x70000000, 0x70000001, 0x70000002, 0x70000003, 0x70000004, 0x70000005, 0x70000006, 0x7000000d, 0x7000002a, 0x7000001e]
SHT_UNKNOWN = [12, 13, 21, 0x5fffffff, 0x6fff0000, 0x6ffffff4, 0x7fffffff, 0x12345678, 0x70000007, 0x7000002b]
SHT_REQ = [2, 11, 0x6ffffff3, 0x6ffffffc, 0x6ffffffe, 0x6ffffffd, 0x6fffffff, 9, 4, 19, 6, 5, 0x6ffffff6]
PT_POOL = [0, 1, 1, 2, 3, 4, 5, 6, 7, 0x60000000, 0x6fffffff, 0x6474e550, 0x6474e551, 0x6474e552, 0x6474e553,
           0x70000000, 0x70000001, 0x70000003, 0x70000002, 8, 9, 0x12345678, 0x7fffffff, 0xffffffff, 0x6474e554]

NAMES = [b'', b'.text', b'.data', b'.bss', b'.stab', b'.stabstr', b'.shstrtab', b'.symtab', b'.strtab', b'.rela.text',
         b'.dynamic', b'.note.gnu.build-id', b'.ARM.attributes', b'.riscv.attributes', b'.hash', b'.gnu.hash',
         '.däta'.encode(), 'секция'.encode(), '.漢字'.encode(), '.\U0001f600x'.encode(),
         ('.' + 'a' * 62 + 'étail').encode(), ('.' + 'b' * 61 + '漢字').encode(), ('.' + 'c' * 62 + '\U0001f600x').encode(),
         ('.' + 'd' * 126 + 'é' + 'ж' * 40).encode(), ('x' + 'ж' * 100).encode(),     # a multi-byte character across byte 64*k
         b'.zdebug_info', b'.zdebug_str', b'.debug_info', b'.zdebug_line', b'.interp',
         b'x', b'.stab ', b'.sta', b'.STAB', b'a' * 63, b'b' * 64, b'c' * 65, b'.long' + b'n' * 130]


def _req_of(code, machine):
    if code in (2, 11, 0x6ffffff3):
        return 'symtab'
    if code in (0x6ffffffc, 0x6fffffff):
        return 'link_symtab'
    if code in (0x6ffffffe, 0x6ffffffd):
        return 'link_strtab'
    if code == 9:
        return 'rel'
    if code == 4:
        return 'rela'
    if code == 19:
        return 'relr'
    if code == 6:
        return 'dynamic'
    if code == 5:
        return 'hash'
    if code == 0x6ffffff6:
        return 'gnuhash'
    if code == 0x70000003 and machine in (40, 243):
        return 'attr'
    return None


def _rand_word(rng, bits):
    r = rng.random()
    if r < 0.15:
        return 0
    if r < 0.25:
        return 2 ** bits - 1
    if r < 0.35:
        return 2 ** (bits - 1)
    if r < 0.5:
        return rng.getrandbits(8)
    return rng.getrandbits(bits)


def _hash_blob(rng, le, is64, gnu, wide=False):
    e = '<' if le else '>'
    if not gnu:
        nb, nc = rng.randint(0, 3), rng.randint(0, 4)
        if wide:        # ELF64 Alpha / s390x: 64-bit entries
            return struct.pack(e + 'QQ', nb, nc) + bytes(rng.getrandbits(8) for _ in range(8 * (nb + nc)))
        return struct.pack(e + 'II', nb, nc) + bytes(rng.getrandbits(8) for _ in range(4 * (nb + nc)))
    nb, bs = rng.randint(0, 3), rng.randint(0, 2)
    return (struct.pack(e + 'IIII', nb, rng.getrandbits(8), bs, rng.getrandbits(5)) +
            bytes(rng.getrandbits(8) for _ in range((8 if is64 else 4) * bs + 4 * nb)))


def make_case(rng, opts=None):
    """Draw one abstract image.  Returns the abstract value (nested lists of ints/bytes only)."""
    o = opts or {}
    is64 = o.get('is64', rng.random() < 0.5)
    le = o.get('le', rng.random() < 0.5)
    bits = 64 if is64 else 32
    r = rng.random()
    machine = o.get('machine', rng.choice(EM_SPECIAL) if r < 0.55 else rng.choice(EM_NAMED) if r < 0.8 else rng.choice(EM_UNKNOWN))
    ehsz, shsz, phsz = (64, 64, 56) if is64 else (52, 40, 32)
    n = o.get('n', rng.choice([0, 1, 1, 2, 3, 4, 5, 6, 8]))
    m = o.get('m', rng.choice([0, 0, 1, 2, 3, 5]))
    shentsize = shsz + rng.choice([0, 0, 0, 1, 2, 7, 8, 24, 63, 64])
    phentsize = phsz + rng.choice([0, 0, 0, 1, 3, 8, 9, 40, 64])

    # ---- section types; supporting sections for the kinds that need a link target
    types = []
    for i in range(n):
        if i == 0:
            types.append(rng.choice([0, 0, 0, 1, 8, 7, 12, 0x70000001]))
        else:
            r = rng.random()
            types.append(rng.choice(SHT_PLAIN) if r < 0.45 else rng.choice(SHT_PROC) if r < 0.6
                         else rng.choice(SHT_UNKNOWN) if r < 0.72 else rng.choice(SHT_REQ + [0x70000003]))
    if 'force_sh_type' in o and n > 1:
        types[1] = o['force_sh_type']
    reqs = [_req_of(t, machine) for t in types]
    need_strtab = any(q in ('symtab', 'link_strtab', 'dynamic', 'link_symtab', 'hash', 'gnuhash') for q in reqs)
    need_symtab = any(q in ('link_symtab', 'hash', 'gnuhash') for q in reqs)
    if need_symtab and not any(t in (2, 11) for t in types[1:]):
        types.append(rng.choice([2, 11])); reqs.append('symtab')
    if need_strtab or need_symtab:
        if not any(t == 3 for t in types[1:]):
            types.append(3); reqs.append(None)
    if n == 0:
        types, reqs = [], []
    n = len(types)
    strtabs = [i for i, t in enumerate(types) if t == 3 and i > 0]
    symtabs = [i for i, t in enumerate(types) if t in (2, 11) and i > 0]
    # name-table index: any section without a requirement on its sh_offset/type
    k = 0
    if n > 0:
        cands = [i for i in range(n) if reqs[i] is None]
        k = rng.choice(strtabs) if strtabs and rng.random() < 0.7 else rng.choice(cands)

    # ---- names and the string-table body
    names = []
    pool = rng.sample(NAMES, min(len(NAMES), 6))
    for i in range(n):
        names.append(b'' if (i == 0 and rng.random() < 0.6) else rng.choice(pool))
    if n > 2 and rng.random() < 0.5:
        names[rng.randrange(n)] = names[rng.randrange(n)]        # force a duplicate
    # a section whose NAME suggests a kind its TYPE does not have, placed where a segment of that kind points
    adv_target = None
    if n > 1 and o.get('adversarial', rng.random() < 0.15):
        i = rng.randrange(1, n)
        nm, ptype, own = rng.choice([(b'.dynamic', 2, (6,)), (b'.dynamic', 2, (6,)), (b'.note.gnu.build-id', 4, (7,)),
                                     (b'.interp', 3, ()), (b'.symtab', 2, (2,)), (b'.strtab', 2, (3,)),
                                     (b'.ARM.attributes', 2, (0x70000003,))])
        if types[i] not in own:
            names[i] = nm
            adv_target = (i, ptype)
            m = max(m, 1)
    if 'long_name' in o and n > 1:
        L = o['long_name']
        if o.get('long_non_ascii'):
            raw = ('.long_' + ''.join(rng.choice('abcdéжд漢_.') for _ in range(L))).encode()[:L]
            names[rng.randrange(1, n)] = raw.decode('utf-8', errors='ignore').encode()       # whole characters only
        else:
            names[rng.randrange(1, n)] = (b'.long_' + bytes(rng.choice(b'abcdefgh_.') for _ in range(L)))[:L]
    strbody = bytearray(bytes([rng.choice([0, 0, 0x41, 0xff])]))
    offs = {}
    sh_names = []
    for nm in names:
        r = rng.random()
        if nm in offs and r < 0.6:
            sh_names.append(offs[nm])
            continue
        # suffix sharing: point into the tail of a stored longer string
        hit = None
        if r < 0.8:
            for other, off in offs.items():
                if len(other) > len(nm) and other.endswith(nm):
                    hit = off + len(other) - len(nm)
        if hit is not None:
            sh_names.append(hit)
            continue
        offs[nm] = len(strbody)
        sh_names.append(len(strbody))
        strbody += nm + b'\0'
    for _ in range(rng.choice([0, 0, 1, 2])):
        ex = rng.choice([b'.unused', b'.text', b'data', b'.debug_info', b'.symtab', b'tab', b'.rela.dyn'])
        if ex not in names:
            strbody += ex + b'\0'          # a string of the table that names no section
    if rng.random() < 0.3:
        strbody += bytes(rng.randint(1, 255) for _ in range(rng.randint(1, 5)))   # unterminated garbage after the last name

    # ---- bodies to place: tables and blobs
    pieces = []      # (tag, size)
    if n > 0:
        pieces.append(('shtab', n * shentsize - (rng.choice([0, 0, shentsize - shsz]))))   # last entry may be cut to the standard size
        pieces.append(('strtab', len(strbody)))
    if m > 0:
        pieces.append(('phtab', m * phentsize - (rng.choice([0, 0, phentsize - phsz]))))
    blobs = {}
    flags = []
    for i in range(n):
        f = _rand_word(rng, bits) & ~0x800
        if rng.random() < 0.12:
            f |= 0x800
            blobs['chdr%d' % i] = bytes(rng.getrandbits(8) for _ in range(24 if is64 else 12))
        flags.append(f)
        if reqs[i] == 'attr':
            blobs['body%d' % i] = b'A' + bytes(rng.getrandbits(8) for _ in range(rng.randint(0, 6)))
        elif reqs[i] == 'hash':
            blobs['body%d' % i] = _hash_blob(rng, le, is64, False, wide=is64 and machine in WIDE_HASH)
        elif reqs[i] == 'gnuhash':
            blobs['body%d' % i] = _hash_blob(rng, le, is64, True)
    for tag, b in blobs.items():
        pieces.append((tag, len(b)))
    for _ in range(rng.randint(0, 3)):
        pieces.append(('junk', rng.randint(1, 48)))
    rng.shuffle(pieces)
    pos = ehsz + rng.choice([0, 0, 1, 4, 12])
    where = {}
    for tag, size in pieces:
        pos += rng.choice([0, 0, 1, 3, 8, rng.randint(0, 40)])
        where[tag] = pos
        pos += size
    total = pos + rng.choice([0, 0, 0, 1, 5, 64])

    # ---- section headers
    sections = []
    for i in range(n):
        t = types[i]
        q = reqs[i]
        sh_offset = _rand_word(rng, bits)
        sh_size = _rand_word(rng, bits)
        sh_link = _rand_word(rng, 32)
        sh_info = _rand_word(rng, 32)
        sh_entsize = _rand_word(rng, bits)
        if i == k:
            sh_offset = where['strtab']
            if rng.random() < 0.7:
                sh_size = len(strbody)
        if ('chdr%d' % i) in blobs:
            if i == k:
                # the name table itself flagged compressed: its compression header is the start of the string body
                if len(strbody) < (24 if is64 else 12):
                    flags[i] &= ~0x800
                del blobs['chdr%d' % i]
            else:
                sh_offset = where['chdr%d' % i]
        if ('body%d' % i) in blobs:
            sh_offset = where['body%d' % i]
            if ('chdr%d' % i) in blobs:          # one offset cannot serve both: drop the compression flag
                flags[i] &= ~0x800
        if q == 'symtab':
            sh_link = rng.choice(strtabs)
            sh_entsize = rng.choice([1, 16, 24, rng.randint(1, 2 ** 16)])
            sh_size = sh_entsize * rng.choice([0, 1, 5, rng.randint(0, 2 ** 12)])
        elif q in ('link_symtab', 'hash', 'gnuhash'):
            sh_link = rng.choice(symtabs)
        elif q == 'link_strtab':
            sh_link = rng.choice(strtabs)
        elif q == 'dynamic':
            nob = [j for j, tt in enumerate(types) if tt == 8]
            sh_link = rng.choice(strtabs + nob)
        elif q == 'rel':
            sh_entsize = 16 if is64 else 8
        elif q == 'rela':
            sh_entsize = 24 if is64 else 12
        elif q == 'relr':
            sh_entsize = 8 if is64 else 4
        sections.append([names[i], [sh_names[i], t, flags[i], _rand_word(rng, bits), sh_offset, sh_size,
                                    sh_link, sh_info, _rand_word(rng, bits), sh_entsize]])

    # ---- counts and escapes
    e_shoff = where['shtab'] if n > 0 else 0
    e_phoff = where['phtab'] if m > 0 else rng.choice([0, 0, total, _rand_word(rng, bits)])
    e_shnum, e_phnum, e_shstrndx = n, m, k
    if n > 0 and rng.random() < 0.3:
        e_shnum = 0
        sections[0][1][5] = n
    if n > 0 and rng.random() < 0.3:
        e_phnum = 0xffff
        sections[0][1][7] = m
    if n > 0 and rng.random() < 0.3:
        e_shstrndx = 0xffff
        sections[0][1][6] = k
    if m == 0 and e_phoff == 0 and rng.random() < 0.5:
        e_phnum = rng.choice([1, 7, 0xfffe, 0xffff])      # no program header table (e_phoff = 0): e_phnum means nothing
    if n == 0:
        shentsize = rng.choice([shentsize, 0, 1, 0xffff])
    if m == 0:
        phentsize = rng.choice([phentsize, 0, 1, 0xffff])

    segments = []
    for j in range(m):
        r = rng.random()
        pt = rng.choice(PT_POOL)
        if j == 0 and 'force_p_type' in o:
            pt = o['force_p_type']
        p_offset = _rand_word(rng, bits)
        if j == 0 and adv_target is not None and 'force_p_type' not in o:
            pt = adv_target[1]
            p_offset = sections[adv_target[0]][1][4]
        elif pt == 2 and n > 0 and rng.random() < 0.6:
            dyn = [i for i in range(n) if types[i] == 6]
            if dyn:
                p_offset = sections[rng.choice(dyn)][1][4]
        segments.append([pt, _rand_word(rng, 32), p_offset, _rand_word(rng, bits), _rand_word(rng, bits),
                         _rand_word(rng, bits), _rand_word(rng, bits), _rand_word(rng, bits)])

    pad = bytes(rng.choice([0, rng.randint(1, 255), rng.randint(1, 255)]) for _ in range(7))
    if o.get('nonzero_pad'):
        pad = bytes(rng.randint(1, 255) for _ in range(7))
    ehdr = [rng.choice([1, 1, 0, 2, 77]), rng.choice(OSABI), rng.getrandbits(8), pad,
            rng.choice(E_TYPE), machine, rng.choice([1, 1, 0, 2, 0xffffffff]), _rand_word(rng, bits),
            e_phoff, e_shoff, _rand_word(rng, 32), rng.choice([ehsz, 0, 0xffff]), phentsize, e_phnum,
            shentsize, e_shnum, e_shstrndx]
    spec = [int(is64), int(le), ehdr, sections, segments, k]
    place = [[where['strtab'], bytes(strbody)]] if n > 0 else []
    for tag, b in blobs.items():
        place.append([where[tag], b])
    return [spec, total, rng.getrandbits(32), place]


def make_big(rng, which):
    """true extended numbering: >= 0xff00 sections or >= 0xffff segments.  Compact abstract:
    the sections/segments are expanded deterministically in expand_big."""
    is64 = rng.random() < 0.5
    le = rng.random() < 0.5
    return ['big', which, int(is64), int(le), rng.choice(EM_SPECIAL + [3]), rng.getrandbits(32),
            rng.choice([0, 8]), rng.choice([0, 1, 300])]


def expand_big(a):
    _, which, is64, le, machine, seed, extra, over = a
    rng = random.Random(seed)
    bits = 64 if is64 else 32
    ehsz, shsz, phsz = (64, 64, 56) if is64 else (52, 40, 32)
    n = 0xff00 + over if which == 'sections' else 3
    m = 0xffff + over if which == 'segments' else 2
    shentsize, phentsize = shsz + extra, phsz + extra
    strbody = b'\0.n\0.shstrtab\0.dup\0'
    k = n - 1 if which == 'sections' else 1
    strtab_at = ehsz + 5
    e_phoff = strtab_at + len(strbody) + 3
    e_shoff = e_phoff + m * phentsize + 7
    total = e_shoff + n * shentsize
    sections = []
    for i in range(n):
        nm, off = (b'', 0) if i == 0 else (b'.shstrtab', 4) if i == k else rng.choice([(b'.n', 1), (b'.dup', 14), (b'n', 2), (b'', 3)])
        t = 0 if i == 0 else 3 if i == k else rng.choice([1, 1, 8, 7, 12, 0x70000001, 0x80000000])
        sections.append([nm, [off, t, rng.getrandbits(bits) & ~0x800, rng.getrandbits(bits), strtab_at if i == k else rng.getrandbits(bits),
                              rng.getrandbits(bits), rng.getrandbits(32), rng.getrandbits(32), rng.getrandbits(bits), rng.getrandbits(bits)]])
    segments = [[rng.choice([0, 1, 1, 4, 7, 0x6474e551, 0x70000001, 0x12345678]), rng.getrandbits(32), rng.getrandbits(bits), rng.getrandbits(bits),
                 rng.getrandbits(bits), rng.getrandbits(bits), rng.getrandbits(bits), rng.getrandbits(bits)] for _ in range(m)]
    e_shnum, e_phnum, e_shstrndx = n, m, k
    if n >= 0xff00:
        e_shnum = 0
        sections[0][1][5] = n
    if m >= 0xffff:
        e_phnum = 0xffff
        sections[0][1][7] = m
    if k >= 0xff00:
        e_shstrndx = 0xffff
        sections[0][1][6] = k
    ehdr = [1, 0, 0, bytes(7), 2, machine, 1, 0, e_phoff, e_shoff, 0, ehsz, phentsize, e_phnum, shentsize, e_shnum, e_shstrndx]
    return [[is64, le, ehdr, sections, segments, k], total, seed, [[strtab_at, strbody]]]


# (n sections, name-table index k, m segments): every escape rule at its boundary values.
# 0xfeff / 0xff00 around SHN_LORESERVE (e_shnum, e_shstrndx), 0xfffe / 0xffff around PN_XNUM (e_phnum),
# and the thresholds of the OTHER rule for each field (e_phnum = 0xff00, k = 0xffff, n = 0xffff).
EDGES = [(0xff00, 0xfeff, 0xff00), (0xff01, 0xff00, 0xfffe), (0x10000, 0xffff, 0xffff), (0xfeff, 0xfefe, 2),
         (0xffff, 0xfffe, 0x10000), (3, 1, 0xfeff)]
EM_NUM = {'EM_ARM': 40, 'EM_AARCH64': 183, 'EM_X86_64': 62, 'EM_MIPS': 8, 'EM_RISCV': 243}


def expand_edge(a):
    """real tables with ~0xff00 entries (2-3 MB each), small field values so that encoding stays cheap"""
    _, idx, is64, le, seed, extra = a
    n, k, m = EDGES[idx % len(EDGES)]
    rng = random.Random(seed)
    ehsz, shsz, phsz = (64, 64, 56) if is64 else (52, 40, 32)
    shentsize, phentsize = shsz + extra, phsz + extra
    strbody = b'\0.n\0.shstrtab\0.dup\0'
    strtab_at = ehsz + 5
    e_phoff = strtab_at + len(strbody) + 3
    e_shoff = e_phoff + m * phentsize + 7
    total = e_shoff + n * shentsize
    sections = []
    for i in range(n):
        nm, off = (b'', 0) if i == 0 else (b'.shstrtab', 4) if i == k else rng.choice([(b'.n', 1), (b'.dup', 14), (b'n', 2), (b'', 3)])
        t = 0 if i == 0 else 3 if i == k else rng.choice([1, 1, 8, 7, 12])
        sections.append([nm, [off, t, rng.getrandbits(6), rng.getrandbits(7), strtab_at if i == k else rng.getrandbits(7),
                              rng.getrandbits(7), rng.getrandbits(5), rng.getrandbits(5), rng.getrandbits(3), rng.getrandbits(4)]])
    segments = [[rng.choice([0, 1, 1, 4, 7]), rng.getrandbits(3), rng.getrandbits(7), rng.getrandbits(7),
                 rng.getrandbits(7), rng.getrandbits(7), rng.getrandbits(7), rng.getrandbits(4)] for _ in range(m)]
    e_shnum, e_phnum, e_shstrndx = n, m, k
    if n >= 0xff00:
        e_shnum = 0
        sections[0][1][5] = n
    if m >= 0xffff:
        e_phnum = 0xffff
        sections[0][1][7] = m
    if k >= 0xff00:
        e_shstrndx = 0xffff
        sections[0][1][6] = k
    ehdr = [1, 0, 0, bytes(7), 2, 3, 1, 0, e_phoff, e_shoff, 0, ehsz, phentsize, e_phnum, shentsize, e_shnum, e_shstrndx]
    return [[is64, le, ehdr, sections, segments, k], total, seed, [[strtab_at, strbody]]]


def py_encode(spec):
    """gABI records packed by struct, used ONLY for the multi-megabyte images (kinds edge/big) to keep the quick
    tier short; the Coq predicate wf_image still certifies that the assembled bytes carry the abstract image
    (evaluate insists on wf for these kinds), so a mistake here cannot pass as an in-domain case."""
    is64, le, ehdr, sections, segments, k = spec
    e = '<' if le else '>'
    A = 'Q' if is64 else 'I'
    eh = (b'\x7fELF' + bytes([2 if is64 else 1, 1 if le else 2, ehdr[0], ehdr[1], ehdr[2]]) + bytes(ehdr[3]) +
          struct.pack(e + 'HHI' + A * 3 + 'IHHHHHH', *ehdr[4:]))
    shp = struct.Struct(e + 'II' + A * 4 + 'II' + A * 2)
    sh = [shp.pack(*h) for _, h in sections]
    if is64:
        php = struct.Struct(e + 'IIQQQQQQ')
        ph = [php.pack(*p) for p in segments]
    else:
        php = struct.Struct(e + 'IIIIIIII')
        ph = [php.pack(p[0], p[2], p[3], p[4], p[5], p[6], p[1], p[7]) for p in segments]
    return [eh, sh, ph]


LONG_NAMES = [65535, 65536, 65537, 70001, 131072]


def expand_longname(a):
    """an ordinary small image one of whose sections bears a name of 64 KiB or more (names are NUL-terminated
    strings of any length; the chunked reader must not give up)"""
    _, idx, is64, le, seed = a
    r = random.Random(seed)
    return make_case(r, dict(is64=bool(is64), le=bool(le), n=r.choice([2, 3, 5]), long_name=LONG_NAMES[idx % len(LONG_NAMES)],
                             long_non_ascii=(idx % len(LONG_NAMES)) >= 3))


def expand_anchor(a, anchors):
    """an image of the anchor's machine whose section 1 / segment 0 carries the anchor's code"""
    _, which, idx, is64, le, seed = a
    lst = anchors[0 if which == 'sh' else 1]
    mach, code, name = lst[idx % len(lst)]
    opts = dict(is64=bool(is64), le=bool(le), machine=EM_NUM.get(mach, 0), n=3, m=2)
    opts['force_sh_type' if which == 'sh' else 'force_p_type'] = code
    return make_case(random.Random(seed), opts), (mach, code, name)


def gen(ctx):
    rng = ctx.rng
    cases = []
    N = ctx.scale(750, 12000)
    # every class x byte order x table-switching machine at least once, with and without sections
    for is64 in (False, True):
        for le in (False, True):
            for mach in EM_SPECIAL + [3, 0x1234]:
                cases.append(('image', make_case(rng, dict(is64=is64, le=le, machine=mach))))
            cases.append(('image', make_case(rng, dict(is64=is64, le=le, n=0, m=0, nonzero_pad=True))))
            cases.append(('image', make_case(rng, dict(is64=is64, le=le, n=0, m=2, nonzero_pad=True))))
    # a SysV hash section on the two machines whose ELF64 psABI has 64-bit hash entries (and on their ELF32 forms)
    for is64 in (False, True):
        for mach in WIDE_HASH:
            cases.append(('image', make_case(rng, dict(is64=is64, machine=mach, n=3, force_sh_type=5))))
    # names that suggest another kind than the section's type, at the offset a segment of that kind points to
    for _ in range(ctx.scale(20, 100)):
        cases.append(('image', make_case(rng, dict(adversarial=True, n=rng.choice([3, 4, 6])))))
    for _ in range(N):
        cases.append(('image', make_case(rng)))
    # malformed variants of well-formed images (outside the theorem's domain: model vs impl only)
    for _ in range(ctx.scale(150, 1500)):
        a = make_case(rng)
        cases.append(('malformed', a + [rng.choice(['truncate', 'shentsize', 'phentsize', 'class', 'data', 'magic', 'shoff', 'strndx', 'byte']),
                                         rng.getrandbits(32)]))
    # the codes the processor supplements fix (Spec/C01Machines.v), each on its machine: expected name from the Coq spec
    for which, cnt in (('sh', 11), ('p', 6)):
        for idx in range(cnt):
            cases.append(('anchor', ['anchor', which, idx, rng.getrandbits(1), rng.getrandbits(1), rng.getrandbits(32)]))
    # very long section names (around and beyond 64 KiB), as a section's own name and as a lookup key
    for idx in range(ctx.scale(4, len(LONG_NAMES))):
        cases.append(('longname', ['longname', idx, rng.getrandbits(1), rng.getrandbits(1), rng.getrandbits(32)]))
    # two live ELFFile objects of one class / byte order and different table-switching machines, read alternately
    for _ in range(ctx.scale(12, 120)):
        ma, mb = rng.sample(EM_SPECIAL, 2)
        cases.append(('pair', ['pair', rng.getrandbits(1), rng.getrandbits(1), ma, mb, rng.getrandbits(32), rng.getrandbits(32)]))
    # extended numbering at the boundary values of every escape rule: real ~0xff00-entry tables
    for idx in range(ctx.scale(4, len(EDGES))):
        cases.append(('edge', ['edge', idx, rng.getrandbits(1), rng.getrandbits(1), rng.getrandbits(32), rng.choice([0, 0, 8])]))
    if ctx.tier == 'thorough':
        for which in ('sections', 'segments', 'sections', 'segments'):
            cases.append(('big', make_big(rng, which)))
    return cases


# ---------------------------------------------------------------- evaluation
def _filler(seed, total):
    r = random.Random(seed)
    return bytearray(r.getrandbits(8 * total).to_bytes(total, 'little')) if total else bytearray()


def assemble(a, enc):
    spec, total, seed, place = a[0], a[1], a[2], a[3]
    is64, le, ehdr, sections, segments, k = spec
    img = _filler(seed, total)
    def put(off, b):
        if off + len(b) > len(img):
            img.extend(bytes(off + len(b) - len(img)))
        img[off:off + len(b)] = b
    e_phoff, e_shoff, phentsize, shentsize = ehdr[8], ehdr[9], ehdr[12], ehdr[14]
    for off, b in place:
        put(off, b)
    for j, b in enumerate(enc[2]):
        put(e_phoff + j * phentsize, b)
    for i, b in enumerate(enc[1]):
        put(e_shoff + i * shentsize, b)
    put(0, enc[0])
    return bytes(img)


def mutate(img, a):
    how, seed = a[4], a[5]
    r = random.Random(seed)
    b = bytearray(img)
    spec = a[0]
    is64, le = spec[0], spec[1]
    e = '<' if le else '>'
    if how == 'truncate':
        return bytes(b[:r.randrange(len(b))])
    if how == 'class':
        b[4] = r.choice([0, 3, 255, 2 if not is64 else 1])
    elif how == 'data':
        b[5] = r.choice([0, 3, 255])
    elif how == 'magic':
        b[r.randrange(4)] ^= 1 << r.randrange(8)
    elif how == 'shentsize':
        off = 58 if is64 else 46
        b[off:off + 2] = struct.pack(e + 'H', r.choice([0, 1, 39, 63, 10]))
    elif how == 'phentsize':
        off = 54 if is64 else 42
        b[off:off + 2] = struct.pack(e + 'H', r.choice([0, 1, 31, 55, 10]))
    elif how == 'shoff':
        if is64:
            b[40:48] = struct.pack(e + 'Q', r.choice([len(b), len(b) + 1, len(b) - 10, 2 ** 63, 2 ** 64 - 1, 1]))
        else:
            b[32:36] = struct.pack(e + 'I', r.choice([len(b), len(b) + 1, len(b) - 10, 2 ** 32 - 1, 1]))
    elif how == 'strndx':
        off = 62 if is64 else 50
        b[off:off + 2] = struct.pack(e + 'H', r.choice([0, 1, 0xff00, 0xffff, 0xfffe, 200]))
    else:
        b[r.randrange(len(b))] ^= 1 << r.randrange(8)
    return bytes(b)


def queries_for(a, rng_seed):
    spec = a[0]
    sections, segments = spec[3], spec[4]
    r = random.Random(rng_seed)
    q = [['header'], ['num_sections'], ['num_segments'], ['shstrndx'], ['sections'], ['segments']]
    if len(sections) > 300 or len(segments) > 300:
        # large tables: counts, name-table index and single entries around the boundaries (no full enumeration)
        q = [['header'], ['num_sections'], ['num_segments'], ['shstrndx']]
        n, m, k = len(sections), len(segments), spec[5]
        for i in sorted({0, 1, k, n - 1, n - 2, 0xfeff, 0xff00, 0xffff} | {r.randrange(n) for _ in range(6)}):
            if 0 <= i < n:
                q.append(['section', i])
        for j in sorted({0, 1, m - 1, 0xfeff, 0xff00, 0xfffe, 0xffff} | {r.randrange(m) for _ in range(6)}):
            if 0 <= j < m:
                q.append(['segment', j])
        return q
    return q


def _type_queries(model_sections, model_segments, r):
    """type filters: every distinct decoded type present (as the library reports it), one absent name, one absent code"""
    out = []
    seen = []
    for s in model_sections:
        t = dict((f, v) for f, v in s[1]).get('sh_type')
        if t not in seen:
            seen.append(t)
    for t in seen[:6] + ['SHT_GROUP', 0x7000beef, 0, '']:      # absent name, absent code, and the falsy values: they filter too
        out.append(['iter_sections', t])
    seen = []
    for g in model_segments:
        t = dict((f, v) for f, v in g[0]).get('p_type')
        if t not in seen:
            seen.append(t)
    for t in seen[:5] + ['PT_TLS', 0x7000beef, 0, '']:
        out.append(['iter_segments', t])
    return out


def _flat_header(h):
    out = []
    for k, v in h.items():
        if k == 'e_ident':
            for kk, vv in v.items():
                out.append(['e_ident.' + kk, bytes(vv) if isinstance(vv, list) else vv])
        else:
            out.append([k, bytes(v) if isinstance(v, list) else v])
    return out


def _obs_section(s):
    return [s.name.encode('utf-8'), _flat_header(s.header), type(s).__name__]


def _obs_segment(g):
    return [_flat_header(g.header), type(g).__name__]


def _scramble(objs):
    """the caller edits, in place, the header containers it was given (rebasing addresses, zeroing sizes, ...): what
    the library reports afterwards must still be what the bytes encode.  Called after the observation was taken."""
    for o in objs:
        h = o.header
        for k in list(h.keys()):
            v = h[k]
            if isinstance(v, int) and not isinstance(v, bool):
                h[k] = (v ^ 0x5a5a) + 1
            elif isinstance(v, str):
                h[k] = 'SCRAMBLED_' + v


def _observe(objs, obs):
    objs = list(objs)
    out = [obs(x) for x in objs]
    _scramble(objs)
    return out


def _impl_answer(elf, q, fresh):
    op = q[0]
    def wrap(f):
        try:
            return ['ok', f()]
        except Exception as e:      # noqa
            return ['err', type(e).__name__]
    if op == 'header':
        return wrap(lambda: _flat_header(elf.header))
    if op == 'num_sections':
        return wrap(elf.num_sections)
    if op == 'num_segments':
        return wrap(elf.num_segments)
    if op == 'shstrndx':
        return wrap(elf.get_shstrndx)
    if op == 'sections':
        return wrap(lambda: _observe(elf.iter_sections(), _obs_section))
    if op == 'segments':
        return wrap(lambda: _observe(elf.iter_segments(), _obs_segment))
    if op == 'section':
        return wrap(lambda: _obs_section(elf.get_section(q[1])))
    if op == 'segment':
        return wrap(lambda: _obs_segment(elf.get_segment(q[1])))
    if op == 'iter_sections':
        return wrap(lambda: [_obs_section(s) for s in elf.iter_sections(type=q[1])])
    if op == 'iter_segments':
        return wrap(lambda: [_obs_segment(g) for g in elf.iter_segments(type=q[1])])
    if op == 'by_name':
        name = q[1].decode('utf-8')
        def f():
            # a fresh object per lookup: a failed _make_section_name_map leaves a partial map behind
            # (history dependence on malformed files is C10's subject, not C01's)
            elf = fresh()
            got = {}
            for which in (('i', 'h', 's'), ('h', 'i', 's'), ('s', 'h', 'i'), ('h', 's', 'i'))[len(q[1]) % 4]:
                got[which] = (elf.get_section_index(name) if which == 'i' else elf.has_section(name) if which == 'h'
                              else elf.get_section_by_name(name))
            i, h, s = got['i'], got['h'], got['s']
            return ['none' if i is None else ['some', i], int(h), 'none' if s is None else ['some', _obs_section(s)]]
        return wrap(f)
    raise ValueError(op)


def _strip_pad(ans):
    """construct does not store Padding in the Container: drop the <pad> entries of model/spec records"""
    if isinstance(ans, list):
        if len(ans) == 2 and isinstance(ans[0], str) and ans[0].endswith('<pad>'):
            return None
        out = []
        for x in ans:
            y = _strip_pad(x)
            if y is not None or x is None:
                out.append(y)
        return out
    return ans


def _canon_names(ans):
    """the library decodes section names with errors='replace'; the model keeps the bytes.  Outside the
    property's domain (malformed images) a name may be invalid UTF-8: compare modulo that replacement."""
    if isinstance(ans, list):
        if len(ans) == 3 and isinstance(ans[0], bytes) and isinstance(ans[1], list) and isinstance(ans[2], str):
            return [ans[0].decode('utf-8', errors='replace').encode('utf-8'), ans[1], ans[2]]
        return [_canon_names(x) for x in ans]
    return ans


def _alias_names(a):
    """the other spelling of the names that have one (.zdebug_x / .debug_x): absent unless the file has both"""
    present = [nm for nm, _ in a[0][3]]
    out = []
    for nm in present:
        for x, y in ((b'.zdebug_', b'.debug_'), (b'.debug_', b'.zdebug_')):
            if nm.startswith(x) and (y + nm[len(x):]) not in out:
                out.append(y + nm[len(x):])
    return out


def _probe_names(a):
    """names to look up: every present name, proper suffixes of present names (tail-merged tables store '.text'
    inside '.rela.text'), strings of the name table that name no section, absent names"""
    out = []
    def add(nm):
        try:
            nm.decode('utf-8')
        except UnicodeDecodeError:
            return
        if nm not in out:
            out.append(nm)
    present = [nm for nm, _ in a[0][3]]
    for nm in present:
        add(nm)
    for nm in _alias_names(a):
        add(nm)
    for nm in present:
        if len(nm) > 1:
            add(nm[1:])
            add(nm[len(nm) // 2:])
    if a[0][3] and a[3]:
        for piece in bytes(a[3][0][1]).split(b'\0'):
            add(piece)
    for nm in (b'.absent', b'.tex', '.äbsent'.encode()):
        add(nm)
    return out


def history_ops(a, spec_sections, seed):
    """a call history on ONE object: enumerations abandoned after k items, full ones, lookups; often a lookup first
    (fresh object) or an abandoned enumeration followed by lookups of sections beyond the stopping point"""
    r = random.Random(seed ^ 0x5bd1e995)
    sections = a[0][3]
    n = len(sections)
    probes = _probe_names(a)
    present = [nm for nm in probes if any(nm == s[0] for s in sections)]
    foreign = [nm for nm in probes if nm not in present]
    types = []
    for s in spec_sections:
        ty = dict((f, v) for f, v in s[1]).get('sh_type')
        if ty not in types:
            types.append(ty)
    def ty():
        return '<none>' if (not types or r.random() < 0.5) else r.choice(types + ['SHT_GROUP', 0, ''])
    def lookup(pool):
        return [r.choice(['has', 'index', 'by_name']), r.choice(pool)]
    def pty():
        return r.choice(['<none>', '<none>', 'PT_DYNAMIC', 'PT_LOAD', 'PT_NOTE', 0, ''])
    alias = [nm for nm in _alias_names(a) if nm in foreign]
    ops = []
    style = r.randrange(4)
    if alias and r.random() < 0.5:
        ops.append(lookup(alias))
    if a[0][4] and r.random() < 0.35:
        ops += [lookup(present or probes), ['segs', '<none>']]      # segments created once the name map exists
    if style == 0:
        ops.append(['has', r.choice(foreign if foreign and r.random() < 0.7 else probes)])
        if a[0][4] and r.random() < 0.6:
            ops.append(['segs', pty()])           # the Segment objects are created after the name map exists
    elif style == 1 and n > 0:
        k = r.randrange(0, n)
        ops.append(['take', ty(), k])
        later = [s[0] for s in sections[k:]] or present
        later = [nm for nm in later if nm in probes] or probes
        ops += [lookup(later), lookup(later)]
    elif style == 2 and types:
        ops.append(['take', r.choice(types), 1])
        ops.append(lookup(present or probes))
    for _ in range(r.randint(2, 5)):
        x = r.random()
        if x < 0.55:
            ops.append(lookup(probes))
        elif x < 0.75:
            ops.append(['take', ty(), r.randrange(0, n + 2)])
        elif x < 0.87:
            ops.append(['iter', ty()])
        else:
            ops.append(['segs', pty()])
    return ops


def impl_history(elf, ops):
    import itertools
    out = []
    for op in ops:
        def f():
            if op[0] == 'segs':
                return _observe(elf.iter_segments(type=None if op[1] == '<none>' else op[1]), _obs_segment)
            if op[0] in ('take', 'iter'):
                it = elf.iter_sections(type=None if op[1] == '<none>' else op[1])
                return _observe(itertools.islice(it, op[2]) if op[0] == 'take' else it, _obs_section)
            name = op[1].decode('utf-8')
            if op[0] == 'has':
                return int(elf.has_section(name))
            if op[0] == 'index':
                i = elf.get_section_index(name)
                return 'none' if i is None else ['some', i]
            s = elf.get_section_by_name(name)
            return 'none' if s is None else ['some', _observe([s], _obs_section)[0]]
        try:
            out.append(['ok', f()])
        except Exception as e:      # noqa
            out.append(['err', type(e).__name__])
    return out


SH_PROC_OF = {40: [0x70000001, 0x70000003], 183: [0x70000003], 62: [0x70000001], 8: [0x70000006, 0x7000002a, 0x70000003], 243: [0x70000003]}
P_PROC_OF = {40: [0x70000001], 183: [0x70000001], 62: [0x6474e550], 8: [0x70000003], 243: [0x70000003]}


def expand_pair(a):
    """two images of the same class and byte order for two different table-switching machines, each with a
    processor-specific section and segment type"""
    _, is64, le, ma, mb, sa, sb = a
    out = []
    for mach, seed in ((ma, sa), (mb, sb)):
        r = random.Random(seed)
        out.append(make_case(r, dict(is64=bool(is64), le=bool(le), machine=mach, n=4, m=2,
                                     force_sh_type=r.choice(SH_PROC_OF[mach]), force_p_type=r.choice(P_PROC_OF[mach]))))
    return out


def _abbrev(ans):
    """what is recorded: byte strings over 256 bytes (the very long names) by length and SHA-1, the same way in the
    implementation's, the model's and the spec's answers"""
    import hashlib
    if isinstance(ans, (bytes, bytearray)) and len(ans) > 256:
        return ('<%d bytes sha1=%s>' % (len(ans), hashlib.sha1(bytes(ans)).hexdigest())).encode()
    if isinstance(ans, list):
        return [_abbrev(x) for x in ans]
    return ans


def _classify(a, img, impl, spec, queries):
    """stable key for a failing case: which observable differs first"""
    sp = a[0]
    if all(isinstance(x, list) and x and x[0] == 'err' for x in impl) and not sp[3] and any(sp[2][3]):
        return 'open-fails-without-section-table-when-e_ident-padding-nonzero'
    for q, i, s in zip(queries, impl, spec):
        if i != s:
            return 'C01/' + q[0] + ('/error-' + i[1] if isinstance(i, list) and i and i[0] == 'err' else '')
    return 'C01/other'


def _drive(drv, kinds, full, imgs):
    """driver passes over a list of images: the fixed queries; type filters and name lookups chosen from the
    spec's view; a call history on one object.  Returns per image (queries, wf, model, spec, history ops)."""
    q1 = [queries_for(a, a[2]) for a in full]
    r1 = drv.batch([['run', img, a[0], q] for img, a, q in zip(imgs, full, q1)])
    q2, hops = [], []
    for kind, a, r in zip(kinds, full, r1):
        qs, ops = [], []
        if kind not in ('big', 'edge'):
            rr = random.Random(a[2])
            spec_ans = r[2]
            secs = spec_ans[4][1] if spec_ans[4][0] == 'ok' else []
            segs = spec_ans[5][1] if spec_ans[5][0] == 'ok' else []
            qs += _type_queries(secs, segs, rr)
            probes = _probe_names(a)
            present = [nm for nm in probes if any(nm == s[0] for s in a[0][3])]
            foreign = [nm for nm in probes if nm not in present]
            alias = [nm for nm in _alias_names(a) if nm in foreign]
            for nm in present + alias + rr.sample(foreign, min(len(foreign), 4)):
                qs.append(['by_name', nm])
            if kind != 'malformed':
                ops = history_ops(a, secs, a[2])
        q2.append(qs)
        hops.append(ops)
    idx2 = [i for i, q in enumerate(q2) if q]
    got2 = drv.batch([['run', imgs[i], full[i][0], q2[i]] for i in idx2])
    r2 = [[0, [], []] for _ in q2]
    for i, g in zip(idx2, got2):
        r2[i] = g
    idxh = [i for i, o in enumerate(hops) if o]
    goth = drv.batch([['history', imgs[i], full[i][0], hops[i]] for i in idxh])
    rh = [[0, [], []] for _ in hops]
    for i, g in zip(idxh, goth):
        rh[i] = g
    out = []
    for qa, ra, qb, rb, ops, rc in zip(q1, r1, q2, r2, hops, rh):
        out.append(dict(queries=qa + qb, nq=len(qa) + len(qb), ops=ops, wf=bool(ra[0]),
                        model=_canon_names(_strip_pad(ra[1] + rb[1] + rc[1])),
                        spec=_canon_names(_strip_pad(ra[2] + rb[2] + rc[2]))))
    return out


def _stream_kind(a):
    """the kind of stream the library is given for this image (tools/lib/streams.py): a function of the abstract
    image, so that a replay meets the same kind"""
    from tools.lib.streams import draw_kind
    return draw_kind(random.Random(a[2] ^ 0x7f4a7c15), p_bytesio=0.75)


def _impl(ELFFile, img, d, S, kind, elf=None):
    """the real library on one image, every object on a stream of the drawn kind: the queries on one object
    (name lookups on fresh ones), then the call history on ONE fresh object"""
    try:
        if elf is None:
            elf = ELFFile(S.open(img, kind))
        impl = [_impl_answer(elf, q, lambda: ELFFile(S.open(img, kind))) for q in d['queries']]
        if d['ops']:
            impl += impl_history(ELFFile(S.open(img, kind)), d['ops'])
    except Exception as e:          # noqa: constructor failure is the answer to every query
        impl = [['err', type(e).__name__] for _ in d['queries'] + d['ops']]
    return impl


def evaluate(ctx, cases):
    from tools.lib.streams import Streams
    S = Streams()
    try:
        _evaluate(ctx, cases, S)
    finally:
        S.close()


def _evaluate(ctx, cases, S):
    from elftools.elf.elffile import ELFFile
    drv = ctx.driver
    # ---- flatten: one entry per image (a pair case has two)
    kinds, full, owner = [], [], []
    anchor_of = {}
    anchors = None
    for ci, (kind, a) in enumerate(cases):
        if kind == 'anchor':
            if anchors is None:
                anchors = drv.batch([['anchors']])[0]
            b, anchor_of[ci] = expand_anchor(a, anchors)
            kinds.append(kind); full.append(b); owner.append(ci)
        elif kind == 'pair':
            for b in expand_pair(a):
                kinds.append('image'); full.append(b); owner.append(ci)
        else:
            kinds.append(kind); owner.append(ci)
            full.append(expand_big(a) if kind == 'big' else expand_edge(a) if kind == 'edge'
                        else expand_longname(a) if kind == 'longname' else a)
    small = [i for i, kind in enumerate(kinds) if kind not in ('edge', 'big')]
    encs = [None] * len(full)
    for i, enc in zip(small, drv.batch([['encode', full[i][0]] for i in small])):
        encs[i] = enc
    imgs = []
    for i, (kind, a) in enumerate(zip(kinds, full)):
        img = assemble(a, encs[i] if encs[i] is not None else py_encode(a[0]))
        if kind == 'malformed':
            img = mutate(img, a)
        imgs.append(img)
    driven = _drive(drv, kinds, full, imgs)
    by_case = {}
    for i, ci in enumerate(owner):
        by_case.setdefault(ci, []).append(i)

    for ci, (kind, a0) in enumerate(cases):
        ids = by_case[ci]
        if kind == 'pair':
            # open A, open B, then read A, read B, read A again: every answer must be the one of that image alone
            ia, ib = ids
            try:
                ka, kb = _stream_kind(full[ia]), _stream_kind(full[ib])
                ctx.bump('stream_kind', ka); ctx.bump('stream_kind', kb)
                elfa = ELFFile(S.open(imgs[ia], ka))
                elfb = ELFFile(S.open(imgs[ib], kb))
                impl = _impl(ELFFile, imgs[ia], driven[ia], S, ka, elfa) + _impl(ELFFile, imgs[ib], driven[ib], S, kb, elfb)
                again = dict(queries=driven[ia]['queries'][:6], ops=[])
                impl += _impl(ELFFile, imgs[ia], again, S, ka, elfa)
            except Exception as e:      # noqa
                impl = [['err', type(e).__name__]]
            da, db = driven[ia], driven[ib]
            model = da['model'] + db['model'] + da['model'][:6]
            spec = da['spec'] + db['spec'] + da['spec'][:6]
            queries = ([['A'] + q for q in da['queries']] + [['A', 'history'] + [o] for o in da['ops']] +
                       [['B'] + q for q in db['queries']] + [['B', 'history'] + [o] for o in db['ops']] +
                       [['A-again'] + q for q in da['queries'][:6]])
            in_domain = da['wf'] and db['wf']
            key = None
            if in_domain and impl != spec:
                key = 'C01/pair/' + next((q[0] + '/' + str(q[1]) for q, x, y in zip(queries, impl, spec) if x != y), 'other')
            ctx.bump('kind', kind)
            ctx.bump('pair_machines', '%d-%d' % (a0[3], a0[4]))
            ctx.bump('in_domain', int(in_domain))
            if not in_domain:
                spec = model
            ctx.record(kind, a0, impl=impl, spec=spec, model=model, in_domain=in_domain, nontrivial=True, key=key,
                       detail={'wf': in_domain, 'len': len(imgs[ia]) + len(imgs[ib]), 'stream': [ka, kb]})
            S.drop_files()
            continue
        i = ids[0]
        a, img, d = full[i], imgs[i], driven[i]
        queries = d['queries'] + [['history', o] for o in d['ops']]
        wf, model, spec = d['wf'], d['model'], d['spec']
        skind = _stream_kind(a)
        ctx.bump('stream_kind', skind)
        impl = _impl(ELFFile, img, d, S, skind)
        S.drop_files()
        in_domain = wf and kind != 'malformed'
        if kind in ('edge', 'big') and not wf:
            raise RuntimeError('C01 harness: a %s image is not certified by wf_image (py_encode or the generator is wrong)' % kind)
        sp = a[0]
        if kind == 'anchor':
            # pseudo-query: the type of section 1 / segment 0 as reported, against the name the supplement fixes
            mach, code, name = anchor_of[ci]
            def pick(ans):
                try:
                    if a0[1] == 'sh':
                        return ['ok', dict((f, v) for f, v in ans[4][1][1][1])['sh_type']]
                    return ['ok', dict((f, v) for f, v in ans[5][1][0][0])['p_type']]
                except Exception:       # noqa
                    return ['err', 'no-answer']
            queries = queries + [['anchor', mach, code]]
            impl = impl + [pick(impl)]
            model = model + [pick(model)]
            spec = spec + [['ok', name]]
            in_domain = in_domain and mach in EM_NUM
        ctx.bump('kind', kind)
        ctx.bump('class_order', '%d%s' % (64 if sp[0] else 32, 'LE' if sp[1] else 'BE'))
        ctx.bump('machine', sp[2][5] if sp[2][5] in EM_SPECIAL else 'named' if sp[2][5] in EM_NAMED else 'unknown')
        ctx.bump('sections', len(sp[3]) if len(sp[3]) < 10 else '10+')
        ctx.bump('segments', len(sp[4]) if len(sp[4]) < 10 else '10+')
        ctx.bump('in_domain', int(in_domain))
        ctx.bump('escapes', '%d%d%d' % (int(bool(sp[3]) and sp[2][15] == 0), int(sp[2][13] == 0xffff), int(sp[2][16] == 0xffff)))
        if d['ops']:
            ctx.bump('history_first_op', d['ops'][0][0])
            ctx.bump('history_len', len(d['ops']))
        key = None
        if in_domain and impl != spec:
            key = _classify(a, img, impl, spec, queries)
        if not in_domain:
            spec = model       # nothing is claimed outside the domain; impl vs model is reported as drift only
        if kind in ('edge', 'big'):
            ctx.bump('edge_counts', '%x/%x/%x' % (len(sp[3]), sp[5], len(sp[4])))
        ctx.record(kind, a0, impl=_abbrev(impl), spec=_abbrev(spec), model=_abbrev(model), in_domain=in_domain,
                   nontrivial=bool(sp[3] or sp[4]), key=key,
                   detail={'wf': wf, 'len': len(img), 'stream': skind})
