import sys, os, json, collections, time
sys.path.insert(0, '/verif'); sys.path.insert(0, os.environ.get('VERIF_REPO', '/repo'))
sys.setrecursionlimit(100000)
from tools.lib import framework as F
import importlib
def main(n=None, only=None):
    ok, out = F.step_make(['Extract/DrvC01.vo'])
    if not ok: print(out[-3000:]); return
    exe, msg, stale = F.step_driver('C01', 'Extract/DrvC01.v')
    print('driver', msg)
    ctx = F.Ctx('C01', os.environ.get('VERIF_TIER', 'quick'), int(os.environ.get('VERIF_SEED', '0')), F.Driver(exe)); ctx.keep_all = True
    h = importlib.import_module('tools.harness.c01')
    cases = h.gen(ctx)
    if only: cases = [c for c in cases if c[0] == only]
    if n: cases = cases[:n]
    t0 = time.time()
    h.evaluate(ctx, cases)
    print('evaluate %.1fs' % (time.time() - t0))
    stats = collections.Counter(); shown = collections.Counter()
    for r in ctx.results:
        a = 'in' if r['in_domain'] else 'out'
        is_ = r['impl'] == r['spec']; im = r['impl'] == r['model']; ms = r['model'] == r['spec']
        stats[(r['kind'], a, 'impl=spec' if is_ else 'impl!=spec', 'impl=model' if im else 'impl!=model', 'model=spec' if ms else 'model!=spec')] += 1
        bad = (r['in_domain'] and (not is_ or not ms)) or not im
        if bad:
            k = (r['kind'], a, r['key'] if r['kind']!='malformed' else r['abstract'][4] + str([ (x[:2] if isinstance(x,list) and x[0]=='err' else 'ok', y[:2] if isinstance(y,list) and y[0]=='err' else 'ok') for x,y in zip(r['impl'],r['model']) if x!=y][:1]), is_, im, ms)
            shown[k] += 1
            if shown[k] <= int(os.environ.get('SHOW', '1')):
                print('=== ', k, r['detail'])
                print('abstract', str(r['abstract'])[:1200])
                for vi in range(len(r['impl'])):
                    if r['impl'][vi] != r['model'][vi] or (r['in_domain'] and r['impl'][vi] != r['spec'][vi]):
                        print(' query', vi)
                        print('  impl ', str(r['impl'][vi])[:1500])
                        print('  model', str(r['model'][vi])[:1500])
                        if r['in_domain']: print('  spec ', str(r['spec'][vi])[:1500])
                        break
    for k, v in sorted(stats.items()): print(v, k)
    print({k: v for k, v in shown.items()})
    print(json.dumps(ctx.hist))
if __name__ == '__main__':
    main(int(sys.argv[1]) if len(sys.argv) > 1 and sys.argv[1] != '0' else None, sys.argv[2] if len(sys.argv) > 2 else None)
