"""C05 correspondence: line-number programs.

impl  = the real library: LineProgram built directly from a header + BytesIO stream ('prog', 'raw'),
        DWARFInfo._parse_line_program_at_offset over synthesized .debug_line/.debug_line_str/.debug_str
        ('unit'), DWARFInfo.line_program_for_CU over synthesized .debug_info/.debug_abbrev ('cu').
spec  = Spec/C05Line.v (DWARF 6.2 state machine) and Spec/C05Header.v (expected header view), bytes
        from the Coq encoders;  model = Model/C05LineProgram.v, Model/C05Header.v (extracted)."""
import io
from tools.lib.framework import impl_call

CLAIMED = True
CONFIG = {'assumptions': [
    'rows compare the 12 state-machine registers; is_stmt by truth value',
    'a v5 header without directories/file names leaves include_directory/file_entry None: compared as empty',
    'unknown STANDARD opcodes (13 <= op < opcode_base), DW_FORM_strx* in v5 tables, strp_sup/GNU_strp_alt when no '
    'supplementary DWARFInfo was given (the library then yields the offset as text), vendor content types '
    'without a name in ENUM_DW_LNCT, DW_LNE_define_file in a version 5 program and extended instructions '
    'whose declared length differs from their operands are outside the property (DESIGN 5)',
    'line_program_for_CU: the unit and its line program use the same DWARF format and address size; the DWARF '
    'version of the unit is free (units of different versions may share one table: same program, same rows)',
    'unit_length < 2^32 - 16 (32-bit format) and header_length representable: generated units are a few KB',
    'a type unit of .debug_types with DW_AT_stmt_list is a unit in the sense of the property: line_program_for_CU '
    'gives it the table its attribute designates, independently of compile units at the same numeric offset',
    'stream kinds: every case reads its sections from a drawn kind of stream; arbitrary-byte (raw) cases avoid mmap and '
    'gzip, whose seek beyond the end differs from BytesIO/files (outside the property)',
    'real objects: llvm-dwarfdump 14 is the reference consumer; its rows were computed when the corpus was built, '
    'the check itself runs no external tool']}
LEVEL = {'text': 'Machine-checked (Props/C05.v, 20 theorems, closed under the global context): C05_rows_equal / '
                 'C05_decode_instrs - for every header parameter set of the domain, both byte orders and address '
                 'sizes, every instruction list and EVERY valid encoding of it (padded LEB128, padded lengths) the '
                 'model of LineProgram._decode_line_program emits exactly the rows of the DWARF 6.2 state machine '
                 'written from the standard (induction over the program; per-instruction simulation C05_step), stops '
                 'at distance 0 from the declared end and leaves the stream at the next byte; C05_decode_total - on arbitrary '
                 'bytes the loop model never ends by fuel exhaustion; '
                 'C05_header_parse / C05_resolve_strings / C05_header_roundtrip - the model of Dwarf_lineprog_header '
                 '(v2-v5, DWARF32/64, v5 entry formats over string, line_strp, strp, strp_sup, GNU_strp_alt, udata, '
                 'data1/2/4/8/16, block) '
                 'and of _parse_line_program_at_offset returns the encoded tables, the resolved strings, the legacy '
                 'include_directory/file_entry arrays and the extent [first program byte, end of unit) for a unit '
                 'placed anywhere in .debug_line; C05_unit_rows - the composition (header + get_entries); '
                 'C05_program_for_unit - line_program_for_CU returns the program at DW_AT_stmt_list through a '
                 'coherent offset cache; C05_gen_* - DW_LNS/DW_LNE/LNCT numbers, the form -> parser bindings and the member list of '
                 'Dwarf_lineprog_header (names, order, widths, version conditions, probed from the live construct tree) '
                 'regenerated from the live modules equal the standard tables; C05_*encoder_in_relation / '
                 'C05_checked_unit_rows - every generated case the driver certifies is an instance of the theorems. '
                 'The hand models are pinned to the code by correspondence through the real LineProgram, '
                 'DWARFInfo._parse_line_program_at_offset and line_program_for_CU entry points.',
         'design_ref': '4.5', 'technique': 'Coq proof (simulation by induction) + extracted-model correspondence',
         'note': 'Nothing left _partial. Pinned by correspondence only (not proved about the Python): that the Gallina '
                 'models equal the Python code; construct Struct/Enum/PrefixedArray/RepeatUntilExcluding machinery, '
                 'BytesIO seek/tell, DIE parsing that yields DW_AT_stmt_list (C04). Outside the theorems (DESIGN 5, '
                 'in_domain=False in the harness): unknown STANDARD opcodes 13 <= op < opcode_base, strx* forms and '
                 'unnamed vendor content types in v5 tables, DW_LNE_define_file in a v5 program, extended '
                 'instructions whose declared length differs from their operands, two units of different '
                 'format/address size sharing one statement-list offset (the cache is keyed by offset only). '
                 'Three genuine defects were repaired in /repo (known_findings.d/C05.json). '
                 'Trusted: Coq kernel, extraction, harness, the transcription of DWARF 6.2 in Spec/C05*.v.'}
RULE = ('cases: prog = header parameters (opcode_base 1..255 incl. <13, line_range 1..255, line_base -128..127, '
        'min_inst, max_ops 1..4(+), address size 4/8, both byte orders) x instruction lists of 0..2000 instructions '
        '(all 12 standard, the 4 extended, unknown extended, every special opcode; padded LEB128; multiple sequences; '
        'DW_LNE_define_file entries that repeat a header entry or an earlier definition, or share only the name) '
        'decoded by a LineProgram built directly over a BytesIO with garbage before/after; unit = 1..4 complete units '
        '(versions 2-5, DWARF32/64, legacy tables or v5 entry formats over string/line_strp/strp/udata/data1-16/block '
        'and strp_sup/GNU_strp_alt resolved from the .debug_str of a supplementary DWARFInfo) '
        'laid out in one .debug_line with gaps, parsed by DWARFInfo._parse_line_program_at_offset; cu = the same '
        'through line_program_for_CU of synthesized units (each lookup followed by get_entries), repeated lookups of '
        'one table through the cache from units of the same and of different DWARF versions, compile units of '
        '.debug_info and type units of .debug_types (with DW_AT_stmt_list) side by side, in any order; LEB128 operands '
        'and header numbers now and then padded to 18-41+ bytes; every case reads its sections from a drawn stream '
        'kind (BytesIO, buffered files, 16-byte buffer, mmap, gzip, decoy descriptor); far = two forced cases per run '
        'on a sparse real .debug_line of more than 4 GiB: one 64-bit-DWARF unit at 0x40, a different one at 2**32+0x40, '
        'units whose DW_AT_stmt_list holds those offsets (expected: C05_unit_rows with the long prefix; the executable '
        'model decodes the same unit at 0x40 and the offsets are shifted); raw = random bytes '
        '(model vs implementation only, out of domain); real = the line tables of 54 real objects (18 gcc/gas and '
        'clang builds over -gdwarf-2..5, -gdwarf64, -m32, -O0..2; every linked ELF file of the library test '
        'directories incl. ARM, MIPS, SPARC, TI and Solaris producers) against the rows, include directories and '
        'file names llvm-dwarfdump 14 computed for them (corpus/C05, built by tools/c05_corpus.py), real-view = all '
        'other header fields of those, implementation vs model. distinct = hash(kind, abstract); non-trivial = at '
        'least one row or a table entry')

LNCT = [1, 2, 3, 4, 5, 0x2000, 0x2001, 0x2002, 0x3fff]
FORMS = ['string', 'line_strp', 'strp', 'udata', 'data1', 'data2', 'data4', 'data8', 'data16', 'block',
         'strp_sup', 'GNU_strp_alt']
STRING_FORMS = ['string', 'line_strp', 'strp', 'strp_sup', 'GNU_strp_alt']
FORM_CODE = {'string': 0x08, 'line_strp': 0x1f, 'strp': 0x0e, 'udata': 0x0f, 'data1': 0x0b, 'data2': 0x05,
             'data4': 0x06, 'data8': 0x07, 'data16': 0x1e, 'block': 0x09, 'strp_sup': 0x1d, 'GNU_strp_alt': 0x1f21}
STD = ['copy', 'advance_pc', 'advance_line', 'set_file', 'set_column', 'negate_stmt', 'set_basic_block',
       'const_add_pc', 'fixed_advance_pc', 'set_prologue_end', 'set_epilogue_begin', 'set_isa']
UVALS = [0, 1, 2, 3, 63, 64, 127, 128, 129, 255, 256, 16383, 16384, 65535, 65536, 2**32 - 1, 2**32, 2**63, 2**64 - 1, 2**64]


# ------------------------------------------------------------------ generators
def _name(rng, lo=1, hi=12):
    return bytes(rng.randint(1, 255) for _ in range(rng.randint(lo, hi)))


def _uval(rng):
    r = rng.random()
    if r < 0.55:
        return rng.randint(0, 40)
    if r < 0.8:
        return rng.choice(UVALS)
    return rng.getrandbits(rng.choice([7, 8, 14, 16, 21, 32, 63, 64, 70]))


def _sval(rng):
    r = rng.random()
    if r < 0.6:
        return rng.randint(-20, 40)
    v = _uval(rng)
    return v if rng.random() < 0.5 else -v


def gen_params(rng, version):
    ob = rng.choice([1, 2, 3, 4, 5, 9, 10, 12, 13, 13, 13, 13, 14, 17, 255, rng.randint(1, 255), rng.randint(1, 20)])
    lr = rng.choice([1, 2, 12, 14, 14, 14, 255, rng.randint(1, 255), rng.randint(1, 30)])
    lb = rng.choice([-128, -5, -5, -3, -1, 0, 1, 127, rng.randint(-128, 127)])
    mi = rng.choice([0, 1, 1, 1, 2, 4, 4, 255, rng.randint(0, 255)])
    if version >= 4:
        mo = rng.choice([1, 1, 1, 2, 3, 4, 4, rng.randint(1, 4), rng.choice([5, 8, 255])])
    else:
        mo = 1
    dis = rng.choice([0, 1, 1, 1, rng.choice([2, 255])])
    return [mi, mo, dis, lb, lr, ob]


def gen_define_file(rng, pool):
    """a DW_LNE_define_file; pool = the file table so far (header entries, then earlier definitions).  DWARF
    6.2.5.3 appends one entry per instruction whatever it holds, so repeats are part of the domain: an entry
    equal to one already in the table, the same name with other numbers, or a fresh one."""
    r = rng.random()
    if pool and r < 0.4:
        e = list(rng.choice(pool))
    elif pool and r < 0.6:
        e = list(rng.choice(pool))
        j = rng.choice([1, 2, 3])
        e[j] = e[j] + rng.choice([1, 2, 127, 128])
    else:
        e = [_name(rng), _uval(rng), _uval(rng), _uval(rng)]
    pool.append(e)
    return ['define_file'] + e


def gen_instr(rng, params, addr, allow_define_file, pool=None):
    """one abstract instruction available under the header"""
    ob = params[5]
    r = rng.random()
    if r < 0.45 and ob <= 255:
        return ['special', rng.choice([ob, 255, rng.randint(ob, 255), rng.randint(ob, 255)])]
    if r < 0.80 and ob > 1:
        n = rng.randint(1, min(12, ob - 1))
        name = STD[n - 1]
        if name in ('advance_pc', 'set_file', 'set_column', 'set_isa'):
            return [name, _uval(rng)]
        if name == 'advance_line':
            return [name, _sval(rng)]
        if name == 'fixed_advance_pc':
            return [name, rng.choice([0, 1, 255, 256, 65535, rng.randint(0, 65535)])]
        return [name]
    r = rng.random()
    if r < 0.25:
        return ['end_sequence']
    if r < 0.5:
        return ['set_address', rng.choice([0, 1, 2 ** (8 * addr) - 1, rng.getrandbits(8 * addr), rng.getrandbits(20)])]
    if r < 0.65:
        return ['set_discriminator', _uval(rng)]
    if r < 0.8 and allow_define_file:
        return gen_define_file(rng, pool if pool is not None else [])
    op = rng.choice([0, 5, 6, 0x7f, 0x80, 0x81, 0xff, rng.randint(5, 255)])
    return ['ext_unknown', op, bytes(rng.getrandbits(8) for _ in range(rng.choice([0, 0, 1, 2, 9, rng.randint(0, 200)])))]


LONG_PADS = [17, 18, 19, 20, 21, 40]


def _pad(rng, usual, p_long=0.03):
    """number of extra continuation bytes of a LEB128 encoding: DWARF 7.6 allows any number, so now and then a long
    run (encodings of 18..41+ bytes, beyond any fixed-width integer)"""
    return rng.choice(LONG_PADS) if rng.random() < p_long else rng.choice(usual)


def gen_prog(rng, params, addr, n, allow_define_file=True, hfiles=()):
    """hfiles: the file entries of the header ([name, dir, mtime, length]).  Three programs in ten that may define
    files are 'file heavy': extra DW_LNE_define_file instructions, repeats included, between the others."""
    prog = []
    pool = [list(f) for f in hfiles]
    heavy = allow_define_file and n > 0 and rng.random() < 0.3
    for _ in range(n):
        if heavy and rng.random() < max(0.15, 2.0 / n):
            i = gen_define_file(rng, pool)
        else:
            i = gen_instr(rng, params, addr, allow_define_file, pool)
        k = _pad(rng, [0, 0, 0, 0, 1, 2, 5])
        kl = _pad(rng, [0, 0, 0, 0, 1, 3])
        prog.append([i, k, kl])
    return prog


def _garbage(rng, n):
    return bytes(rng.randint(1, 255) for _ in range(n))


def _strpool(rng):
    """a string section and the (offset, string) pairs that can be referenced in it"""
    parts, refs, pos = [], [], 0
    lead = _garbage(rng, rng.choice([0, 1, 7]))
    if lead:
        parts.append(lead + b'\0'); pos += len(lead) + 1
    for _ in range(rng.randint(1, 6)):
        s = _name(rng, 0, rng.choice([3, 10, 70, 140]))
        refs.append((pos, s))
        if len(s) > 2:
            cut = rng.randrange(len(s))
            refs.append((pos + cut, s[cut:]))        # a suffix is a string too
        parts.append(s + b'\0'); pos += len(s) + 1
    return b''.join(parts), refs


def gen_fval(rng, form, is64, lsrefs, srefs, suprefs=None):
    if form in ('strp_sup', 'GNU_strp_alt'):
        # a string of the supplementary object file's .debug_str; without such a file the library falls back to the
        # offset as text, which is not the string the producer meant: out of the domain
        off, s = rng.choice(suprefs) if suprefs else (rng.randint(0, 300), b'')
        return [form, off, s]
    if form == 'string':
        return ['string', _name(rng, 0, 20)]
    if form == 'line_strp':
        off, s = rng.choice(lsrefs); return ['line_strp', off, s]
    if form == 'strp':
        off, s = rng.choice(srefs); return ['strp', off, s]
    if form == 'udata':
        return ['udata', _uval(rng)]
    if form in ('data1', 'data2', 'data4', 'data8'):
        n = int(form[4:])
        return [form, rng.choice([0, 1, 2 ** (8 * n) - 1, rng.getrandbits(8 * n)])]
    if form == 'data16':
        return ['data16', bytes(rng.getrandbits(8) for _ in range(16))]
    return ['block', bytes(rng.getrandbits(8) for _ in range(rng.choice([0, 1, 5, 130])))]


def gen_format(rng, need_path, maxn=5):
    n = rng.randint(0, maxn)
    cts = rng.sample(LNCT, min(n, len(LNCT)))
    if need_path and 1 not in cts:
        cts.insert(rng.randint(0, len(cts)), 1)
    return [[ct, rng.choice(STRING_FORMS) if (ct == 1 and rng.random() < 0.9) else rng.choice(FORMS)] for ct in cts]


def gen_header(rng, version, is64, addr, lsrefs, srefs, params=None, suprefs=None):
    params = params or gen_params(rng, version)
    ob = params[5]
    std = bytes(rng.getrandbits(8) for _ in range(ob - 1)) if rng.random() < 0.5 else \
        bytes(([0, 1, 1, 1, 1, 0, 0, 0, 1, 0, 0, 1] + [rng.randint(0, 3) for _ in range(250)])[:ob - 1])
    incdirs, files, dfmt, dirs, ffmt, fnames = [], [], [], [], [], []
    if version < 5:
        incdirs = [_name(rng) for _ in range(rng.choice([0, 1, 2, 4]))]
        files = [[_name(rng), _uval(rng), _uval(rng), _uval(rng)] for _ in range(rng.choice([0, 1, 2, 5]))]
    else:
        nd = rng.choice([0, 1, 2, 3])
        dfmt = gen_format(rng, nd > 0)
        dirs = [[gen_fval(rng, f, is64, lsrefs, srefs, suprefs) for _, f in dfmt] for _ in range(nd)]
        nf = rng.choice([0, 1, 2, 4])
        ffmt = gen_format(rng, rng.random() < 0.8)
        fnames = [[gen_fval(rng, f, is64, lsrefs, srefs, suprefs) for _, f in ffmt] for _ in range(nf)]
    seg = rng.choice([0, 0, 0, rng.getrandbits(8)])
    return [is64, version, addr, seg, params, std, incdirs, files, dfmt, dirs, ffmt, fnames]


CORPUS_DIR = 'corpus/C05'


def corpus(ctx):
    """line tables of real objects (gcc/gas, clang, and the linked files of the library's test directories) with the
    rows llvm-dwarfdump computed for them, prepared by tools/c05_corpus.py.  Quick tier: files up to 60 KB."""
    import json, os
    from tools.lib.framework import VERIF
    out = []
    d = os.path.join(str(VERIF), CORPUS_DIR)
    hx = lambda h: None if h is None else bytes.fromhex(h)
    for fn in sorted(os.listdir(d)) if os.path.isdir(d) else []:
        if not fn.endswith('.json'):
            continue
        if os.path.getsize(os.path.join(d, fn)) > ctx.scale(60000, 10 ** 9):
            continue
        e = json.load(open(os.path.join(d, fn)))
        units = [[u['offset'], u['is64'], u['addr'], u['version'], u['rows'],
                  'skip' if u['dirs'] is None else [x.encode() for x in u['dirs']],
                  'skip' if u['files'] is None else [[n.encode(), di] for n, di in u['files']]] for u in e['units']]
        out.append(('real', [e['label'], e['little_endian'], hx(e['line']), hx(e['line_str']), hx(e['str']), units]))
    return out


def _real_projection(res, want_dirs, want_files):
    """from ['ok', [view, decoded]] keep what the oracle also reports: rows, include directories, (file name,
    directory index) pairs, distance of the final offset from the end of the unit"""
    if not (isinstance(res, list) and res and res[0] == 'ok'):
        return res
    view, dec = res[1]
    if not (isinstance(dec, list) and dec and dec[0] == 'ok'):
        return dec
    hv = view[0]
    return [dec[1][0], hv[11] if want_dirs else 'skip', [[f[0], f[1]] for f in hv[12]] if want_files else 'skip',
            dec[1][2]]


def gen(ctx):
    rng = ctx.rng
    cases = []
    # ---- prog: LineProgram directly over a stream
    sizes = [0, 1, 2, 3] + [rng.randint(1, 12) for _ in range(ctx.scale(500, 12000))] + \
            [rng.randint(20, 120) for _ in range(ctx.scale(150, 3000))] + \
            [rng.randint(500, 2000) for _ in range(ctx.scale(6, 120))] + [2000]
    for n in sizes:
        version = rng.choice([2, 3, 4, 4, 5])
        le = rng.random() < 0.6
        addr = rng.choice([4, 8])
        params = gen_params(rng, version)
        hfiles = [[_name(rng), _uval(rng), _uval(rng), _uval(rng)] for _ in range(rng.choice([0, 0, 1, 2, 4]))] \
            if version < 5 else []
        prog = gen_prog(rng, params, addr, n, allow_define_file=version < 5 or rng.random() < 0.1, hfiles=hfiles)
        if n and rng.random() < 0.5:
            prog.append([['end_sequence'], 0, 0])
        cases.append(('prog', [le, addr, version, params, prog, _garbage(rng, rng.choice([0, 0, 3, 40])),
                               _garbage(rng, rng.choice([0, 0, 5])), hfiles, _draw_kind(rng)]))
    # ---- repeated file entries (DWARF 6.2.5.3: every DW_LNE_define_file adds an entry, file numbers keep counting)
    f1, f2 = [b'a.c', 1, 0, 0], [b'b.h', 0, 7, 300]
    df = lambda f: [['define_file'] + f, 0, 0]
    p13 = [1, 1, 1, -5, 14, 13]
    cases.append(('prog', [True, 4, 3, p13, [df(f1), [['set_file', 3], 0, 0], [['copy'], 0, 0]], b'', b'', [f1, f2]]))
    cases.append(('prog', [True, 8, 2, p13, [df(f2), df(f2), [['set_file', 2], 0, 0], [['special', 20], 0, 0]], b'', b'', []]))
    cases.append(('prog', [False, 4, 4, p13, [df(f1), df([b'a.c', 2, 0, 0]), df([b'a.c', 1, 0, 1]), df(f1)], b'', b'', [f1]]))
    # ---- the deviations of DESIGN 5 as fixed corpus entries
    cases.append(('prog', [True, 4, 3, [1, 1, 1, -5, 14, 13], [[['copy'], 0, 0], [['end_sequence'], 0, 0]], b'', b'']))
    cases.append(('prog', [True, 4, 4, [4, 4, 1, -5, 14, 13], [[['advance_pc', 3], 0, 0], [['copy'], 0, 0]], b'', b'']))
    cases.append(('prog', [True, 4, 4, [4, 4, 1, -5, 14, 13], [[['const_add_pc'], 0, 0], [['copy'], 0, 0]], b'', b'']))
    cases.append(('prog', [True, 4, 4, [1, 4, 1, -5, 14, 13], [[['special', 13 + 14], 0, 0], [['fixed_advance_pc', 8], 0, 0], [['copy'], 0, 0]], b'', b'']))
    cases.append(('prog', [True, 4, 4, [1, 4, 1, -5, 14, 13], [[['special', 13 + 14], 0, 0], [['set_address', 64], 0, 0], [['copy'], 0, 0]], b'', b'']))
    # ---- raw: arbitrary bytes as a program (implementation vs model only)
    for _ in range(ctx.scale(200, 4000)):
        version = rng.choice([2, 3, 4, 5])
        params = gen_params(rng, version)
        n = rng.randint(0, 30)
        data = bytes(rng.choice([0, 0, 1, 2, 3, 4, 9, 12, 13, 0x80, rng.getrandbits(8), rng.getrandbits(8)]) for _ in range(n))
        cases.append(('raw', [rng.random() < 0.5, rng.choice([4, 8]), version, params, data, rng.randint(0, n),
                              _draw_kind(rng)]))
    # ---- unit / cu: complete units in a .debug_line section
    for kind, count in (('unit', ctx.scale(400, 6000)), ('cu', ctx.scale(150, 2500))):
        for _ in range(count):
            le = rng.random() < 0.6
            k = _pad(rng, [0, 0, 0, 1, 2], 0.06)
            line_str, lsrefs = _strpool(rng)
            strsec, srefs = _strpool(rng)
            # the .debug_str of a supplementary object file handed to the DWARFInfo (absent in one case of eight)
            supsec, suprefs = _strpool(rng) if rng.random() < 0.875 else (None, None)
            units = []
            for _u in range(rng.choice([1, 1, 2, 3, 4])):
                version = rng.choice([2, 3, 4, 5, 5])
                is64 = rng.random() < 0.3
                addr = rng.choice([4, 8])
                hdr = gen_header(rng, version, is64, addr, lsrefs, srefs, suprefs=suprefs)
                prog = gen_prog(rng, hdr[4], addr, rng.choice([0, 1, 5, 20, rng.randint(0, 60)]),
                                allow_define_file=version < 5 and kind == 'unit', hfiles=hdr[7])
                units.append([hdr, prog, _garbage(rng, rng.choice([0, 0, 1, 13]))])
            lookups = None
            if kind == 'cu':
                # which unit each CU points at (None = no DW_AT_stmt_list); repeated lookups hit the cache
                lookups = [rng.choice([None] + list(range(len(units))) * 3) for _ in range(rng.randint(1, 6))]
                lookups = [-1 if x is None else x for x in lookups]
                # the DWARF version of each looking-up unit: several units (of different versions, hence with
                # different DWARFStructs objects) may designate the same table; the program does not depend on it
                cuvers = [rng.choice([2, 3, 4, 5]) if x < 0 or rng.random() < 0.6 else units[x][0][1] for x in lookups]
                # where each looking-up unit lives: 0 = a compile unit of .debug_info, 1 = a type unit of .debug_types
                # (DWARF 4; its DW_AT_stmt_list designates the table its DW_AT_decl_file numbers refer to).  The two
                # sections number their units independently, so offsets coincide (both start at 0).
                places = [int(rng.random() < 0.35) for _ in lookups]
            else:
                cuvers = places = None
            cases.append((kind, [le, k, line_str, strsec, units, _garbage(rng, rng.choice([0, 4])), lookups, cuvers,
                                 supsec, places, _draw_kind(rng)]))
    # ---- far: a .debug_line section larger than 4 GiB (64-bit DWARF exists for this): one unit at 0x40, a DIFFERENT
    # one at 2**32 + 0x40, looked up through 64-bit units whose DW_AT_stmt_list holds those offsets, in either order
    for _ in range(ctx.scale(2, 8)):
        le = rng.random() < 0.6
        line_str, lsrefs = _strpool(rng)
        strsec, srefs = _strpool(rng)
        supsec, suprefs = _strpool(rng)
        units = []
        for _u in range(2):
            version = rng.choice([2, 3, 4, 5, 5])
            addr = rng.choice([4, 8])
            hdr = gen_header(rng, version, True, addr, lsrefs, srefs, suprefs=suprefs)
            prog = gen_prog(rng, hdr[4], addr, rng.randint(3, 25), allow_define_file=False)  # repeated lookups share the header
            units.append([hdr, prog, b''])
        lookups = rng.choice([[0, 1], [1, 0], [1], [1, 0, 1]])
        cases.append(('far', [le, rng.choice([0, 1]), line_str, strsec, units, b'', lookups,
                              [rng.choice([3, 4, 5]) for _x in lookups], supsec, [int(rng.random() < 0.3) for _x in lookups],
                              0]))
    return cases


FAR_LOW, FAR_HIGH = 0x40, 2 ** 32 + 0x40


# ------------------------------------------------------------------ implementation adapters
def _row(st):
    return [st.address, st.op_index, st.file, st.line, st.column, int(bool(st.is_stmt)), int(bool(st.basic_block)),
            int(bool(st.end_sequence)), int(bool(st.prologue_end)), int(bool(st.epilogue_begin)), st.isa,
            st.discriminator]


def _dv(x):
    if x is None:
        return 'none'
    if isinstance(x, (bytes, bytearray)):
        return bytes(x)
    if isinstance(x, bool):
        return int(x)
    if isinstance(x, int):
        return x
    if isinstance(x, (list, tuple)):
        return ['l', bytes(x)]
    raise TypeError('unexpected value %r' % (x,))


def _fe(e):
    return [_dv(e.name), _dv(e.get('dir_index')), _dv(e.get('mtime')), _dv(e.get('length'))]


_MEMO = {}


def _decoded(lp, stream_len):
    """rows, file entries appended, end - final offset, the file table after decoding.  get_entries() is memoised by the library and the
    program object is shared through DWARFInfo._linetable_cache, so a repeated lookup reports the first
    observation (the growth of header.file_entry across calls is property C10's subject)."""
    if lp._decoded_entries is not None and id(lp) in _MEMO and _MEMO[id(lp)][0] is lp:
        return _MEMO[id(lp)][1]
    r = _decoded1(lp, stream_len)
    _MEMO[id(lp)] = (lp, r)
    return r


def _decoded1(lp, stream_len):
    before = len(lp.header['file_entry']) if lp.header.get('file_entry') is not None else 0
    entries = lp.get_entries()
    rows = [_row(e.state) for e in entries if e.state is not None]
    fe = lp.header.get('file_entry')
    # a DW_LNE_define_file with an empty name (out of domain) has no further fields: the model reports 0
    added = [[b'', 0, 0, 0] if not e.name else _fe(e) for e in list(fe)[before:]] if fe is not None else []
    # the loop's final `offset`: stream.tell() after the last instruction, or the start if it never ran
    final = lp.stream.tell() if lp.program_start_offset < lp.program_end_offset else lp.program_start_offset
    # the file table a consumer indexes with the file register afterwards: header entries then definitions
    # (versions 2-4; a version 5 table is a tuple the program cannot extend)
    fix = lambda e: [b'', 0, 0, 0] if not e.name else _fe(e)
    table = [fix(e) for e in fe] if fe is not None and lp.header['version'] < 5 else added
    return ['ok', [rows, added, lp.program_end_offset - final, table]]


def _with_table(dec, hfiles):
    """driver answer ['ok', [rows, defined files, rem]] -> the same with the final file table (header entries
    followed by the defined files, DWARF 6.2.5.3) as the harness observes it"""
    if isinstance(dec, list) and len(dec) == 2 and dec[0] == 'ok' and isinstance(dec[1], list) and len(dec[1]) == 3:
        return ['ok', dec[1] + [[list(f) for f in hfiles] + list(dec[1][1])]]
    return dec


def _unit_with_table(res):
    """['ok', [[view, start, end], decoded]] -> the same with the final table computed from the view's own
    file_entry (index 12; versions 2-4) and the decoded definitions"""
    if isinstance(res, list) and len(res) == 2 and res[0] == 'ok' and isinstance(res[1], list) and len(res[1]) == 2:
        lpv, dec = res[1]
        hv = lpv[0]
        hfiles = hv[12] if isinstance(hv[1], int) and hv[1] < 5 else []
        return ['ok', [lpv, _with_table(dec, hfiles)]]
    return res


def _view(lp):
    from elftools.dwarf.enums import ENUM_DW_LNCT, ENUM_DW_FORM
    h = lp.header
    v5 = h['version'] >= 5
    def fmt(f):
        return ['some', [[ENUM_DW_LNCT[e.content_type], e.form if isinstance(e.form, int) else ENUM_DW_FORM[e.form]]
                         for e in f]]
    def ents(es):
        return ['some', [[[ENUM_DW_LNCT[kk], _dv(vv)] for kk, vv in e.items()] for e in es]]
    p = [h['minimum_instruction_length'], h['maximum_operations_per_instruction'], h['default_is_stmt'],
         h['line_base'], h['line_range'], h['opcode_base']]
    opt = lambda x: 'none' if x is None else ['some', x]
    return [[h['unit_length'], h['version'], opt(h['address_size']), opt(h['segment_selector_size']),
             h['header_length'], p, bytes(h['standard_opcode_lengths']),
             fmt(h['directory_entry_format']) if v5 else 'none', ents(h['directories']) if v5 else 'none',
             fmt(h['file_name_entry_format']) if v5 else 'none', ents(h['file_names']) if v5 else 'none',
             [_dv(x) for x in (h.get('include_directory') or ())],
             [_fe(e) for e in (h.get('file_entry') or ())]],
            lp.program_start_offset, lp.program_end_offset]


_STREAMS = {'S': None, 'kind': 'bytesio'}


def _open(data):
    """the bytes as a stream of the kind drawn for the current case (tools/lib/streams.py)"""
    S = _STREAMS['S']
    return S.open(data, _STREAMS['kind']) if S is not None else io.BytesIO(data)


def _kind_of(idx):
    from tools.lib.streams import KINDS
    return KINDS[idx % len(KINDS)] if isinstance(idx, int) else 'bytesio'


def _draw_kind(rng):
    from tools.lib.streams import KINDS, draw_kind
    return KINDS.index(draw_kind(rng))


def _sec(data, name):
    from elftools.dwarf.dwarfinfo import DebugSectionDescriptor
    return DebugSectionDescriptor(_open(data), name, None, len(data), 0)


def _dwarfinfo(le, line, line_str, strsec, info=None, abbrev=None, sup=None, types=None):
    """sup: the .debug_str bytes of a supplementary object file (DWARFInfo.supplementary_dwarfinfo), or None"""
    from elftools.dwarf.dwarfinfo import DWARFInfo, DwarfConfig
    di = DWARFInfo(
        config=DwarfConfig(little_endian=le, default_address_size=8, machine_arch='x64'),
        debug_info_sec=_sec(info, '.debug_info') if info is not None else None,
        debug_aranges_sec=None,
        debug_abbrev_sec=_sec(abbrev, '.debug_abbrev') if abbrev is not None else None,
        debug_frame_sec=None, eh_frame_sec=None,
        debug_str_sec=_sec(strsec, '.debug_str') if strsec is not None else None,
        debug_loc_sec=None, debug_ranges_sec=None,
        debug_line_sec=_sec(line, '.debug_line'),
        debug_pubtypes_sec=None, debug_pubnames_sec=None, debug_addr_sec=None, debug_str_offsets_sec=None,
        debug_line_str_sec=_sec(line_str, '.debug_line_str') if line_str is not None else None,
        debug_loclists_sec=None, debug_rnglists_sec=None, debug_sup_sec=None, gnu_debugaltlink_sec=None,
        debug_types_sec=_sec(types, '.debug_types') if types else None)
    if sup is not None:
        di.supplementary_dwarfinfo = _dwarfinfo(le, b'', None, sup)
    return di


def _uleb(v):
    out = bytearray()
    while True:
        b = v & 0x7f
        v >>= 7
        if v:
            out.append(b | 0x80)
        else:
            out.append(b)
            return bytes(out)


def _build_units(le, cus, places=None, sig_seed=0):
    """cus: list of (version, is64, addr, stmt_list offset or None); places[j] = 1 puts unit j into .debug_types as
    a type unit, else into .debug_info as a compile unit -> (.debug_info, .debug_types, .debug_abbrev).
    One abbreviation table per unit: DW_TAG_compile_unit / DW_TAG_type_unit, no children, optional DW_AT_stmt_list."""
    bo = 'little' if le else 'big'
    info, types, abbrev = b'', b'', b''
    for j, (version, is64, addr, off) in enumerate(cus):
        tu = bool(places and places[j])
        aoff = len(abbrev)
        osz = 8 if is64 else 4
        if version >= 4:
            form = 0x17                          # DW_FORM_sec_offset
        else:
            form = 0x07 if is64 else 0x06        # DW_FORM_data8 / data4 (lineptr class before DWARF 4)
        attrs = (_uleb(0x10) + _uleb(form)) if off is not None else b''
        abbrev += _uleb(1) + _uleb(0x41 if tu else 0x11) + b'\0' + attrs + b'\0\0' + b'\0'
        die = _uleb(1) + (off.to_bytes(osz, bo) if off is not None else b'')
        if tu:
            # Dwarf_TU_header: version, debug_abbrev_offset, address_size, signature, type_offset
            hdr = version.to_bytes(2, bo) + aoff.to_bytes(osz, bo) + bytes([addr]) + \
                ((sig_seed * 1000003 + j * 7919 + 1) % 2 ** 64).to_bytes(8, bo)
            type_offset = (12 if is64 else 4) + len(hdr) + osz
            body = hdr + type_offset.to_bytes(osz, bo) + die
        elif version >= 5:
            body = version.to_bytes(2, bo) + bytes([1, addr]) + aoff.to_bytes(osz, bo) + die
        else:
            body = version.to_bytes(2, bo) + aoff.to_bytes(osz, bo) + bytes([addr]) + die
        il = (b'\xff\xff\xff\xff' + len(body).to_bytes(8, bo)) if is64 else len(body).to_bytes(4, bo)
        if tu:
            types += il + body
        else:
            info += il + body
    return info, types, abbrev


# ------------------------------------------------------------------ evaluation
def evaluate(ctx, cases):
    drv = ctx.driver
    from elftools.dwarf.lineprogram import LineProgram
    from elftools.dwarf.structs import DWARFStructs
    from elftools.construct.lib import Container, ListContainer

    # pass 1: programs -> bytes (Coq encoder)
    req1, slots = [], []
    for ci, (kind, a) in enumerate(cases):
        if kind == 'prog':
            req1.append(['encode_prog', [a[0], a[1]], a[4]]); slots.append((ci, None))
        elif kind in ('unit', 'cu', 'far'):
            for ui, (hdr, prog, gap) in enumerate(a[4]):
                req1.append(['encode_prog', [a[0], hdr[2]], prog]); slots.append((ci, ui))
    ans1 = drv.batch(req1)
    pbytes = {}
    for (ci, ui), b in zip(slots, ans1):
        pbytes[(ci, ui)] = b

    # pass 2: units -> bytes, wf, expected results
    req2, tags = [], []
    for ci, (kind, a) in enumerate(cases):
        if kind == 'prog':
            le, addr, version, params, prog = a[0], a[1], a[2], a[3], a[4]
            req2 += [['wf_prog', [le, addr], params, prog], ['rows_spec', params, prog]]
            tags += [(ci, None, 'wf'), (ci, None, 'rows')]
        elif kind in ('unit', 'cu', 'far'):
            le, k, line_str, strsec = a[0], a[1], a[2], a[3]
            for ui, (hdr, prog, gap) in enumerate(a[4]):
                pb = pbytes[(ci, ui)]
                sup = a[8] if len(a) > 8 and a[8] is not None else b''
                req2 += [['encode_unit', le, k, hdr, pb], ['wf_header', hdr, line_str, strsec, sup],
                         ['wf_prog', [le, hdr[2]], hdr[4], prog], ['rows_spec', hdr[4], prog],
                         ['expected_view', le, k, hdr, pb, 0]]
                tags += [(ci, ui, 'bytes'), (ci, ui, 'wfh'), (ci, ui, 'wf'), (ci, ui, 'rows'), (ci, ui, 'view')]
    ans2 = drv.batch(req2)
    info = {}
    for t, v in zip(tags, ans2):
        info[t] = v

    # pass 3: model on the final bytes
    req3, tags3, built = [], [], {}
    for ci, (kind, a) in enumerate(cases):
        if kind == 'prog':
            le, addr, version, params, prog, pre, post = a[:7]
            pb = pbytes[(ci, None)]
            stream = pre + pb + post
            built[ci] = (stream, len(pre), len(pre) + len(pb))
            req3.append(['model_decode', [le, addr], params, version < 5, stream, len(pre), len(pre) + len(pb)])
            tags3.append(ci)
        elif kind == 'raw':
            le, addr, version, params, data, end = a[:6]
            built[ci] = (data, 0, end)
            req3.append(['model_decode', [le, addr], params, version < 5, data, 0, end])
            tags3.append(ci)
        elif kind == 'far':
            # the executable model cannot hold 4 GiB of bytes: it decodes each unit placed at FAR_LOW of a small section;
            # C05_unit_rows holds for any prefix, so at FAR_HIGH the same view and rows come with offsets shifted
            le, k, line_str, strsec, units = a[:5]
            for ui in (0, 1):
                secs = [b'\xee' * FAR_LOW + info[(ci, ui, 'bytes')], line_str, strsec, a[8]]
                req3.append(['model_units', secs, [[[le, True, units[ui][0][2]], FAR_LOW]]])
                tags3.append((ci, ui))
        elif kind == 'real':
            label, le, line, line_str, strsec, units = a
            secs = [line, line_str if line_str is not None else 'none', strsec if strsec is not None else 'none']
            req3.append(['model_units', secs, [[[le, u[1], u[2]], u[0]] for u in units]])
            tags3.append(ci)
        else:
            le, k, line_str, strsec, units, trail, lookups = a[:7]
            line, offs = b'', []
            for ui, (hdr, prog, gap) in enumerate(units):
                line += gap
                offs.append(len(line))
                line += info[(ci, ui, 'bytes')]
            line += trail
            built[ci] = (line, offs)
            secs = [line, line_str, strsec, a[8] if len(a) > 8 and a[8] is not None else 'nosup']
            if kind == 'unit':
                us = [[[le, units[ui][0][0], units[ui][0][2]], offs[ui]] for ui in range(len(units))]
            else:
                us = [[[le, units[x][0][0], units[x][0][2]], offs[x]] if x >= 0 else [[le, False, 4], 'none']
                      for x in lookups]
            req3.append(['model_units', secs, us])
            tags3.append(ci)
    ans3 = dict(zip(tags3, drv.batch(req3)))

    # pass 4: the implementation
    _MEMO.clear()
    from tools.lib.streams import Streams
    import zlib
    S = Streams(prefix='pv-streams-c05-')
    _STREAMS['S'] = S
    try:
        _pass4(ctx, cases, built, info, ans3, S)
    finally:
        _STREAMS['S'] = None
        _STREAMS['kind'] = 'bytesio'
        S.close()


def _pass4(ctx, cases, built, info, ans3, S):
    from elftools.dwarf.lineprogram import LineProgram
    from elftools.dwarf.structs import DWARFStructs
    from elftools.construct.lib import Container, ListContainer
    import zlib
    for ci, (kind, a) in enumerate(cases):
        ctx.bump('kind', kind)
        if ci % 40 == 39:
            _MEMO.clear()
            S.drop_files()
        # the kind of stream the library reads this case's sections from (same bytes on every kind)
        kidx = {'prog': 8, 'raw': 6, 'unit': 10, 'cu': 10}.get(kind)
        if kind == 'real':
            sk = _kind_of(zlib.crc32(a[0].encode() if isinstance(a[0], str) else bytes(a[0])))
        else:
            sk = _kind_of(a[kidx]) if kidx is not None and len(a) > kidx else 'bytesio'
        if kind == 'raw' and sk in ('mmap', 'gzip'):
            # arbitrary bytes skip beyond the end of the stream (unknown extended opcode with a huge length): there
            # mmap raises and gzip clamps where BytesIO and files just move on; the model describes the latter
            sk = 'file'
        _STREAMS['kind'] = sk
        ctx.bump('stream_kind', sk)
        ctx.bump('stream_kind_' + kind, sk)
        if kind in ('prog', 'raw'):
            le, addr, version, params = a[0], a[1], a[2], a[3]
            hfiles = a[7] if kind == 'prog' and len(a) > 7 else []
            stream, start, end = built[ci]
            ds = DWARFStructs(little_endian=le, dwarf_format=32, address_size=addr)
            fe0 = ListContainer(Container(name=f[0], dir_index=f[1], mtime=f[2], length=f[3]) for f in hfiles)
            hdr = Container(version=version, minimum_instruction_length=params[0],
                            maximum_operations_per_instruction=params[1], default_is_stmt=params[2],
                            line_base=params[3], line_range=params[4], opcode_base=params[5],
                            file_entry=fe0 if version < 5 else ())
            def run():
                lp = LineProgram(hdr, _open(stream), ds, start, end)
                return _decoded(lp, len(stream))
            impl = impl_call(run)
            model = _with_table(ans3[ci], hfiles)
            if kind == 'prog':
                wf = bool(info[(ci, None, 'wf')])
                if version >= 5 and any(i[0][0] == 'define_file' for i in a[4]):
                    wf = False
                if version < 4 and params[1] != 1:
                    wf = False
                spec = _with_table(info[(ci, None, 'rows')], hfiles)
                n = len(a[4])
                ndf = [i[0][1:] for i in a[4] if i[0][0] == 'define_file']
                ctx.bump('define_file', 'none' if not ndf else 'repeats' if any(
                    f in hfiles or f in ndf[:j] for j, f in enumerate(ndf)) else 'distinct')
                ctx.bump('prog_len', '0' if n == 0 else '1-12' if n <= 12 else '13-120' if n <= 120 else '121+')
                ctx.bump('max_ops', params[1] if params[1] <= 4 else '5+')
                ctx.bump('opcode_base', '<10' if params[5] < 10 else '10-12' if params[5] < 13 else '13' if params[5] == 13 else '>13')
                ctx.record(kind, a, impl=impl, spec=spec, model=model, in_domain=wf,
                           nontrivial=isinstance(spec, list) and len(spec[1][0]) > 0, key=_key(a, impl, spec))
            else:
                ctx.record(kind, a, impl=impl, spec=model, model=model, in_domain=False, nontrivial=len(a[4]) > 1)
        elif kind == 'far':
            _far_case(ctx, ci, a, info, ans3, S)
        elif kind == 'real':
            label, le, line, line_str, strsec, units = a
            def run():
                di = _dwarfinfo(le, line, line_str, strsec)
                out = []
                for off, is64, addr, version, rows, dirs, files in units:
                    ds = DWARFStructs(little_endian=le, dwarf_format=64 if is64 else 32, address_size=addr)
                    def one():
                        lp = di._parse_line_program_at_offset(off, ds)
                        return ['ok', [_view(lp), _decoded(lp, len(line))]]
                    out.append(impl_call(one))
                return out
            impl = impl_call(run)
            model = [_unit_with_table(r) for r in ans3[ci]] if isinstance(ans3[ci], list) else ans3[ci]
            proj = lambda res: [_real_projection(r, u[5] != 'skip', u[6] != 'skip') for r, u in zip(res, units)] \
                if isinstance(res, list) and len(res) == len(units) else res
            exp = [[u[4], u[5], u[6], 0] for u in units]
            ctx.bump('real_tables', '1' if len(units) == 1 else '2-9' if len(units) < 10 else '10+')
            for u in units:
                ctx.bump('real_version', u[3])
            # the property on producer-made programs: rows and tables as an independent consumer computes them
            ctx.record(kind, a, impl=proj(impl), spec=exp, model=proj(model), in_domain=True,
                       nontrivial=any(u[4] for u in units), key='real-object-differs-from-llvm-dwarfdump')
            # everything else the library reports (all header fields, extent): implementation vs model
            ctx.record('real-view', a, impl=impl, spec=model, model=model, in_domain=False, nontrivial=False)
        else:
            le, k, line_str, strsec, units, trail, lookups = a[:7]
            cuvers = a[7] if len(a) > 7 and a[7] is not None else None
            supsec = a[8] if len(a) > 8 else None
            places = a[9] if len(a) > 9 and a[9] is not None else None
            line, offs = built[ci]
            wf = all(bool(info[(ci, ui, 'wfh')]) and bool(info[(ci, ui, 'wf')]) for ui in range(len(units)))
            exp = []
            order = list(range(len(units))) if kind == 'unit' else lookups
            for x in order:
                if x < 0:
                    exp.append(['ok', 'none'])
                    continue
                view, st, en = info[(ci, x, 'view')]
                exp.append(_unit_with_table(['ok', [[view, st + offs[x], en + offs[x]], info[(ci, x, 'rows')]]]))
            def run():
                out = []
                if kind == 'unit':
                    di = _dwarfinfo(le, line, line_str, strsec, sup=supsec)
                    for ui in order:
                        hdr = units[ui][0]
                        ds = DWARFStructs(little_endian=le, dwarf_format=64 if hdr[0] else 32, address_size=hdr[2])
                        def one():
                            lp = di._parse_line_program_at_offset(offs[ui], ds)
                            return ['ok', [_view(lp), _decoded(lp, len(line))]]
                        out.append(impl_call(one))
                else:
                    cus = [((cuvers[j] if cuvers else units[x][0][1]), units[x][0][0], units[x][0][2], offs[x]) if x >= 0
                           else ((cuvers[j] if cuvers else 4), False, 4, None) for j, x in enumerate(lookups)]
                    dinfo, dtypes, dabbrev = _build_units(le, cus, places, sig_seed=len(line))
                    di = _dwarfinfo(le, line, line_str, strsec, dinfo, dabbrev, sup=supsec, types=dtypes)
                    # the unit objects, then the queries in the order of the lookups (compile and type units mixed)
                    cu_objs, tu_objs = list(di.iter_CUs()), list(di.iter_TUs())
                    ci_, ti_ = iter(cu_objs), iter(tu_objs)
                    unit_objs = [next(ti_) if (places and places[j]) else next(ci_) for j in range(len(lookups))]
                    for cu in unit_objs:
                        def one():
                            lp = di.line_program_for_CU(cu)
                            if lp is None:
                                return ['ok', 'none']
                            return ['ok', [_view(lp), _decoded(lp, len(line))]]
                        out.append(impl_call(one))
                return out
            impl = impl_call(run)
            ctx.bump('units', len(units))
            for u in units:
                if u[0][1] >= 5:
                    fs = {f for _, f in u[0][8] + u[0][10]}
                    ctx.bump('v5_supplementary_forms', 'used' if fs & {'strp_sup', 'GNU_strp_alt'} else 'not used')
            if kind == 'cu' and places:
                ctx.bump('cu_lookup_units', 'compile+type units' if 0 < sum(places) < len(places)
                         else 'type units only' if sum(places) else 'compile units only')
            if kind == 'cu' and cuvers:
                shared = {}
                for x, v in zip(lookups, cuvers):
                    if x >= 0:
                        shared.setdefault(x, set()).add(v)
                ctx.bump('cu_sharing_a_table', 'different-versions' if any(len(v) > 1 for v in shared.values())
                         else 'same-or-single')
            for u in units:
                ctx.bump('version', u[0][1])
                ctx.bump('format', 64 if u[0][0] else 32)
            nt = any(len(u[1]) > 0 or u[0][6] or u[0][7] or u[0][9] or u[0][11] for u in units)
            mres = [_unit_with_table(r) for r in ans3[ci]] if isinstance(ans3[ci], list) else ans3[ci]
            ctx.record(kind, a, impl=impl, spec=exp, model=mres, in_domain=wf, nontrivial=nt,
                       key=kind + '-mismatch')


def _far_case(ctx, ci, a, info, ans3, S):
    from elftools.dwarf.dwarfinfo import DebugSectionDescriptor
    le, k, line_str, strsec, units, _trail, lookups, cuvers, supsec, places = a[:10]
    ub = [info[(ci, 0, 'bytes')], info[(ci, 1, 'bytes')]]
    at = [FAR_LOW, FAR_HIGH]
    wf = all(bool(info[(ci, ui, 'wfh')]) and bool(info[(ci, ui, 'wf')]) for ui in (0, 1))
    exp, mres = [], []
    for x in lookups:
        view, st, en = info[(ci, x, 'view')]
        exp.append(_unit_with_table(['ok', [[view, st + at[x], en + at[x]], info[(ci, x, 'rows')]]]))
        m = ans3[(ci, x)]
        m = m[0] if isinstance(m, list) and len(m) == 1 else m
        if isinstance(m, list) and len(m) == 2 and m[0] == 'ok' and isinstance(m[1], list):
            (mv, mst, men), mdec = m[1]
            m = ['ok', [[mv, mst + at[x] - FAR_LOW, men + at[x] - FAR_LOW], mdec]]
        mres.append(_unit_with_table(m))
    def run():
        # a sparse real file: holes read as zeros, only the two units take disk blocks
        path = S.path_of(b'')
        with open(path, 'r+b') as f:
            f.seek(FAR_LOW); f.write(ub[0])
            f.seek(FAR_HIGH); f.write(ub[1])
        size = FAR_HIGH + len(ub[1])
        st = open(path, 'rb')
        try:
            cus = [(cuvers[j], True, units[x][0][2], at[x]) for j, x in enumerate(lookups)]
            dinfo, dtypes, dabbrev = _build_units(le, cus, places, sig_seed=len(ub[0]))
            di = _dwarfinfo(le, b'', line_str, strsec, dinfo, dabbrev, sup=supsec, types=dtypes)
            di.debug_line_sec = DebugSectionDescriptor(st, '.debug_line', None, size, 0)
            cu_objs, tu_objs = iter(list(di.iter_CUs())), iter(list(di.iter_TUs()))
            out = []
            for j in range(len(lookups)):
                cu = next(tu_objs) if places[j] else next(cu_objs)
                def one():
                    lp = di.line_program_for_CU(cu)
                    if lp is None:
                        return ['ok', 'none']
                    return ['ok', [_view(lp), _decoded(lp, size)]]
                out.append(impl_call(one))
            return out
        finally:
            st.close()
    impl = impl_call(run)
    ctx.bump('far_first_lookup', 'high' if lookups[0] == 1 else 'low')
    ctx.record('far', a, impl=impl, spec=exp, model=mres, in_domain=wf, nontrivial=True,
               key='statement-list-offset-beyond-4GiB')


def _key(a, impl, spec):
    """stable finding keys for the deviations of DESIGN section 5"""
    if impl == spec or not (isinstance(impl, list) and isinstance(spec, list) and impl[0] == 'ok' == spec[0]):
        return 'prog-mismatch'
    ri, rs = impl[1][0], spec[1][0]
    if ri == rs and (impl[1][1] != spec[1][1] or impl[1][3:] != spec[1][3:]):
        return 'file-table-after-define_file-differs'
    if len(ri) == len(rs):
        diff = set()
        for x, y in zip(ri, rs):
            for j in range(12):
                if x[j] != y[j]:
                    diff.add((j, x[7]))
        if diff and all(j == 5 and es == 1 for j, es in diff):
            return 'end_sequence-row-is_stmt-forced-to-0'
        if a[3][1] > 1 and diff and all(j in (0, 1) for j, _ in diff):
            ops = {i[0][0] for i in a[4]}
            if ops & {'advance_pc', 'const_add_pc'}:
                return 'vliw-op_index-ignored-by-advance_pc-const_add_pc'
            if ops & {'fixed_advance_pc', 'set_address'}:
                return 'vliw-op_index-not-reset-by-fixed_advance_pc-set_address'
    return 'prog-mismatch'
