import sys, os, json
sys.path.insert(0, '/verif'); sys.path.insert(0, os.environ.get('VERIF_REPO', '/repo'))
sys.setrecursionlimit(100000)
from tools.lib import framework as F
from tools.harness import c05
tier = sys.argv[1] if len(sys.argv) > 1 else 'quick'
seed = int(sys.argv[2]) if len(sys.argv) > 2 else 0
ctx = F.Ctx('C05', tier, seed, F.Driver('/verif/ocaml/build/c05/drv'))
ctx.keep_all = True
cases = c05.gen(ctx)
c05.evaluate(ctx, cases)
n = 0
for r in ctx.results:
    bad = (r['impl'] != r['model']) or (r['in_domain'] and r['impl'] != r['spec'])
    if bad:
        n += 1
        if n <= 5:
            print(r['kind'], 'in_domain', r['in_domain'], r['key'])
            print(' abstract', json.dumps(F.sx.jsonable(r['abstract']))[:1500])
            print(' impl ', json.dumps(F.sx.jsonable(r['impl']))[:800])
            print(' model', json.dumps(F.sx.jsonable(r['model']))[:800])
            print(' spec ', json.dumps(F.sx.jsonable(r['spec']))[:800])
print(len(ctx.results), 'cases', n, 'bad')
