"""C04 correspondence: debugging-information entries.
abstract = a "world": byte order, .debug_info units, .debug_types units (each: configuration, header kind,
abbreviation table with every LEB128 encoding explicit, entry tree with explicit operands), the assembled
.debug_abbrev and the string/offset/address/list sections.
bytes  = Spec.C04Sem.encode_section through the driver (no Python encoder of DWARF exists here; the LEB128
         byte strings the generator proposes are free arguments certified by the Coq wf check);
spec   = Spec.C04Spec.expect_* / Spec.C04Sem (relations, resolve, ref_target);
model  = Model.C04Model (iter_CUs/iter_TUs, iter_DIEs, iter_children, get_parent, die_from_attribute, values);
impl   = DWARFInfo built directly over BytesIO sections."""
import gc
import io

CLAIMED = True
CONFIG = {'assumptions': [
    'DWARFInfo is built directly over BytesIO sections (DebugSectionDescriptor), one stream per section; all sections '
    'are present except that .debug_types is absent (debug_types_sec=None) in a generated share of the files without v4 '
    'type units -- the model represents an absent .debug_types as an empty one; no supplementary DWARF object',
    'the kind of stream and the lifetime of owner objects are dimensions of the correspondence only: every stream kind '
    'presents the same bytes and the stateless model gains no-op steps, so spec and model answers do not depend on them',
    'tag / attribute / form display names are the ones the library tables give (C17 decides the tables); a number '
    'without a name is reported as the integer',
    'domain (certified per case by the Coq wf check through the driver): versions 2-5, standard forms of DWARF 5 '
    'Table 7.6 + DW_FORM_GNU_ref_alt/strp_alt, distinct attribute names per abbreviation, distinct abbreviation '
    'codes per table, a present DW_AT_sibling designates the true next sibling in a reference form, index forms '
    'resolvable (base attribute in the root entry, index inside the table), references designate an entry',
    'the DIE/CU caches are modelled by recomputation (their transparency is C10)']}
LEVEL = {'text': 'Machine-checked theorems (Props/C04.v, 39, all closed under the global context), universally quantified over '
                 'well-formed units (Spec unit_wf: v2-5, DWARF32/64, address size 4/8, both byte orders, all header kinds, '
                 'arbitrary abbreviation codes / unknown numbers, every LEB128 in any valid encoding) placed at any offset with '
                 'any following bytes: (1) the live Dwarf_dw_form table = the form table of the standard in all 32 '
                 'configurations, header / abbreviation structs, name dicts and the form-name tuples written inline in the tree walk / '
                 'reference / value code (read from the source by ast) as the standard; (2) unit header round trips '
                 '(v2-v4 CU, six v5 kinds, v4 type unit) and abbreviation table round trip + lookup; (3) every operand class, '
                 'DW_FORM_indirect chains of any length, implicit_const; one entry at any offset = expected offset, size, code, '
                 'tag, child flag, attributes (name, final form, raw value, offset, indirection length); parsing at each '
                 'successive offset yields exactly the pre-order entry list; resolved values (strp, line_strp, flag, strx*, '
                 'addrx*, loclistx, rnglistx through the top entry\'s base attributes) equal the standard\'s whenever defined; '
                 '(4) entries tile the unit from cu_die_offset to unit_length + initial-length size; (5) iter_DIEs = the '
                 'pre-order list, iter_children of every node = the encoded children and the closing null entry, get_parent '
                 'of every child / terminator = the encoded parent (DW_AT_sibling absent or, in any reference form, '
                 'designating the true next sibling); (6) unit-relative, ref_addr and ref_sig8 (v5 type units in .debug_info '
                 'and v4 .debug_types) references return the entry at the designated offset; (7) units of mixed parameters '
                 'are found at the running sums by iter_CUs / iter_TUs and each is parsed with its own parameters.  Nothing is '
                 'left _partial.  The model is tied to the code by the regenerated Gen tables and by a differential '
                 'correspondence on random unit sequences (impl = model = spec on every in-domain case).',
         'design_ref': '4.4',
         'technique': 'Coq proof (induction over the encoded tree and its flattening, LEB128/fixed-int/cstring round trips from '
                      'C16, vm_compute for the finite table theorems) + Gen tables from live construct objects + '
                      'extracted-model correspondence',
         'note': 'Hypotheses are the boolean checks the driver evaluates per case (unit_wf, table_at_b, siblings_wf, resolve '
                 '= Some, ref_target = Some).  Outside the theorems (pinned by correspondence only): the DIE/CU caches '
                 '(modelled by recomputation; their transparency is C10), strings without terminator (library: None) and '
                 'unresolvable indexes.  Defects found and fixed in /repo: DW_FORM_strx missing (54a8ce3), DW_FORM_strx4 read '
                 'as 8 bytes (7cdf1ca), ref_sig8 to v5 type units (f90eac4).  Trusted: Coq kernel, extraction, harness, '
                 'tools/gen/gen_c04.py (construct-tree walk), the form table in Spec/C04Spec.v written from DWARF 2-5.  '
                 'No axioms.'}
RULE = ('cases: (a) one_form: one unit, one entry, one attribute of each standard form followed by a sentinel attribute, in '
        'all 32 configurations; (b) world: random unit sequences in .debug_info and .debug_types (versions 2-5, 32/64-bit, '
        'addr 4/8, LSB/MSB, every header kind, shared/per-unit abbreviation tables at arbitrary offsets, arbitrary codes, '
        'unknown tag/attribute numbers, trees of depth <= 8 and fan-out <= 6, every form incl. indirect chains, LEB128 of '
        '1-10 bytes incl. non-minimal, empty and 300-byte blocks, strings at arbitrary table offsets, index forms with '
        'base attributes, DW_AT_sibling present/absent in every reference form, references of all three kinds; the .debug_types section independently '
        'absent / present-empty / holding v4 type units); (c) sig8_world: worlds with DWARF 5 type units placed anywhere in '
        '.debug_info, type-signature references (direct and through DW_FORM_indirect) in about half of the abbreviations, '
        'under each of the three .debug_types states.  In every case each type unit signature is also looked up directly '
        '(get_DIE_by_sig8, get_TU_by_sig8, each as the first query on a fresh DWARFInfo). '
        'About one abbreviation in seven is a DW_TAG_imported_unit with DW_AT_import in ref_addr / ref4 / DW_FORM_ref / indirect '
        'form (no supplementary file).  '
        'Abbreviation tables declare their codes in no particular order (the root\'s declaration anywhere, small codes after '
        'large ones).  Every world carries a history of by-offset accesses (get_CU_at of the last unit first / of arbitrary '
        'units in any order): all observations (iter_CUs, entries, children, parents, references) are taken on fresh objects '
        'and again on objects that first served that history.  Environment (element 13 of the abstract): every section stream '
        'of a case is of one kind drawn from tools/lib/streams.py (BytesIO, real files fresh / warm / at EOF / 16-byte '
        'buffer, mmap, gzip, decoy fileno; ~20 % non-BytesIO for one_form, ~45 % for worlds), and in ~8 % / ~45 % of the '
        'cases the second pass drops owners while their children are still queried: del DWARFInfo + gc.collect() after '
        'list(iter_CUs()/iter_TUs()), optionally also each unit after list(iter_DIEs()).  (d) high_offset (2 forced cases): '
        'a self-contained unit observed through get_CU_at at a section offset just below / at / above 2**32, behind a '
        '64-bit-DWARF unit of ~4 GiB in a sparse real file; expected = the Coq expected results for that offset (spec_at). '
        'distinct = hash(kind, abstract); non-trivial = at least two entries or an attribute')

STD_FORMS = [0x01, 0x02, 0x03, 0x04, 0x05, 0x06, 0x07, 0x08, 0x09, 0x0a, 0x0b, 0x0c, 0x0d, 0x0e, 0x0f, 0x10, 0x11, 0x12, 0x13,
             0x14, 0x15, 0x16, 0x17, 0x18, 0x19, 0x1a, 0x1b, 0x1c, 0x1d, 0x1e, 0x1f, 0x20, 0x21, 0x22, 0x23, 0x24, 0x25,
             0x26, 0x27, 0x28, 0x29, 0x2a, 0x2b, 0x2c, 0x1f20, 0x1f21]
UNIT_REF = [0x11, 0x12, 0x13, 0x14, 0x15, 0x02]     # 0x02: DW_FORM_ref (DWARF 1), 4-byte unit-relative
STRX = [0x1a, 0x25, 0x26, 0x27, 0x28]
ADDRX = [0x1b, 0x29, 0x2a, 0x2b, 0x2c]
AT_SIBLING, AT_TYPE, AT_NAME = 0x01, 0x49, 0x03
AT_IMPORT, TAG_IMPORTED_UNIT = 0x18, 0x3d
AT_STR_OFFSETS_BASE, AT_ADDR_BASE, AT_RNGLISTS_BASE, AT_LOCLISTS_BASE = 0x72, 0x73, 0x74, 0x8c
CONFIGS = [(le, f, a, v) for le in (1, 0) for f in (0, 1) for a in (0, 1) for v in (2, 3, 4, 5)]
NTAB = 12          # entries per index table


# ------------------------------------------------------------------ LEB128 byte strings (free arguments, certified by wf)
def uleb(v, pad=0):
    out = []
    while True:
        b = v & 0x7f
        v >>= 7
        if v:
            out.append(b | 0x80)
        else:
            out.append(b)
            break
    if pad:
        out[-1] |= 0x80
        out += [0x80] * (pad - 1) + [0x00]
    return bytes(out)


def sleb(v, pad=0):
    neg = v < 0
    out = []
    while True:
        b = v & 0x7f
        v >>= 7
        if (v == 0 and not b & 0x40) or (v == -1 and b & 0x40):
            out.append(b)
            break
        out.append(b | 0x80)
    if pad:
        out[-1] |= 0x80
        out += [0xff if neg else 0x80] * (pad - 1) + [0x7f if neg else 0x00]
    return bytes(out)


def uleb_fixed(v, width):
    e = uleb(v)
    assert len(e) <= width
    return uleb(v, width - len(e)) if len(e) < width else e


def L(rng, v, maxpad=2):
    """a ULEB number with a (sometimes non-minimal) encoding"""
    pad = rng.choice([0, 0, 0, 1, maxpad]) if maxpad else 0
    return [v, uleb(v, pad)]


def rnd_uleb_value(rng):
    r = rng.random()
    if r < 0.3:
        return rng.choice([0, 1, 63, 64, 127, 128, 255, 256, 16383, 16384, 2**32 - 1, 2**32, 2**63, 2**64 - 1])
    return rng.getrandbits(rng.choice([3, 7, 8, 14, 21, 32, 56, 63, 64]))


def rnd_sleb_value(rng):
    v = rnd_uleb_value(rng) >> 1
    return -v - 1 if rng.random() < 0.5 else v


# ------------------------------------------------------------------ operands
class Gen:
    def __init__(self, ctx, classes):
        self.rng = ctx.rng
        self.classes = classes      # (cfg tuple, form code) -> class code

    def cls(self, cfg, form):
        return self.classes[(tuple(cfg), form)]

    def operand(self, cfg, form, env, depth=0):
        """-> abstract operand for this form; env supplies meaningful values for offsets / indexes"""
        rng = self.rng
        k = self.cls(cfg, form)
        if k < 100:                                   # fixed n bytes
            return ['u', self.fixed_value(cfg, form, k, env)]
        if k == 100:
            v = self.uleb_value(cfg, form, env)
            if form == 0x15:                          # ref_udata: fixed width so that layout does not depend on the value
                return ['leb', v, uleb_fixed(v, 4)]
            total = rng.choice([0, 0, 0, 1, 2, 9])
            enc = uleb(v)
            pad = max(0, min(total, 10 - len(enc)))
            return ['leb', v, uleb(v, pad)]
        if k == 101:
            v = rnd_sleb_value(rng)
            enc = sleb(v)
            pad = max(0, min(rng.choice([0, 0, 1, 3, 9]), 10 - len(enc)))
            return ['leb', v, sleb(v, pad)]
        if k == 102:
            n = rng.choice([0, 1, 2, 5, 17, 63, 64, 65, 300]) if rng.random() < 0.3 else rng.randint(0, 12)
            return ['str', bytes(rng.randint(1, 255) for _ in range(n))]
        if k == 110:
            n = rng.choice([0, 0, 1, 3, 127, 128, 300])
            return ['blocku', uleb(n, rng.choice([0, 0, 1, 3])), bytes(rng.getrandbits(8) for _ in range(n))]
        if 110 < k < 120:
            w = k - 110
            n = rng.choice([0, 0, 1, 3, 200, 255] + ([256, 300] if w > 1 else []))
            return ['blockn', bytes(rng.getrandbits(8) for _ in range(n))]
        if 200 <= k < 300:
            return ['bytes', bytes(rng.getrandbits(8) for _ in range(k - 200))]
        if k == 120:
            return ['none']
        if k == 121:
            return ['implicit']
        if k == 122:
            pool = [f for f in STD_FORMS if f != 0x21 and f != 0x16]
            if env.get('indirect_to'):
                f = env['indirect_to']
                if depth < 2 and rng.random() < 0.25:          # reach the wanted form through a longer chain
                    return ['ind', [0x16, uleb(0x16, rng.choice([0, 0, 1]))], self.operand(cfg, 0x16, env, depth + 1)]
            elif depth < 3 and rng.random() < 0.35:            # indirection cascades of length 2..4
                f = 0x16
            else:
                f = rng.choice(pool)
            env2 = dict(env)
            env2.pop('indirect_to', None)
            return ['ind', [f, uleb(f, rng.choice([0, 0, 1]))], self.operand(cfg, f, env2, depth + 1)]
        raise ValueError(k)

    def fixed_value(self, cfg, form, n, env):
        rng = self.rng
        m = 1 << (8 * n)
        if form in (0x0e, 0x1f):                      # strp, line_strp: an offset with a terminator after it
            sec = env['str'] if form == 0x0e else env['line_str']
            return rng.randrange(len(sec)) % m
        if form in STRX or form in ADDRX:
            return rng.randrange(min(NTAB, m))
        if form == 0x0c:
            return rng.choice([0, 1, 1, 2, 255])
        if rng.random() < 0.3:
            return rng.choice([0, 1, m // 2 - 1, m // 2, m - 1, 0x0102030405060708 % m])
        return rng.randrange(m)

    def uleb_value(self, cfg, form, env):
        if form in STRX or form in ADDRX or form in (0x22, 0x23):
            return self.rng.randrange(NTAB)
        if form == 0x15:
            return 0                                  # patched
        return rnd_uleb_value(self.rng)


def innermost(op):
    while op[0] == 'ind':
        op = op[2]
    return op


def final_form(form, op):
    while op[0] == 'ind':
        form = op[1][0]
        op = op[2]
    return form


def set_int(op, v):
    """patch the integer of a fixed / ULEB operand (ULEB keeps its 4-byte width)"""
    op = innermost(op)
    if op[0] == 'u':
        op[1] = v
    elif op[0] == 'leb':
        op[1] = v
        op[2] = uleb_fixed(v, 4)
    else:
        raise ValueError(op)


def fits(cfg, gen, form, v):
    k = gen.cls(cfg, form)
    if k < 100:
        return 0 <= v < (1 << (8 * k))
    return 0 <= v < (1 << 28)


# ------------------------------------------------------------------ tables and trees
KNOWN_TAGS = [0x01, 0x02, 0x04, 0x0b, 0x0d, 0x11, 0x13, 0x24, 0x2e, 0x34, 0x2c, 0x41, 0x4b, 0x4109, 0xffff]
UNKNOWN_TAGS = [0x07ff, 0x4444, 0x12345, 2**40 + 5]
KNOWN_ATS = [0x02, 0x03, 0x0b, 0x10, 0x11, 0x12, 0x1b, 0x25, 0x2e, 0x31, 0x3a, 0x3b, 0x3f, 0x2137, 0x3fef, 0x51, 0x00]
UNKNOWN_ATS = [0x0777, 0x3333, 0x2fffff, 2**35 + 1]


def gen_table(g, nforms_cursor, with_root=True):
    """-> list of decl dicts {code, tag, kids, attrs:[{name, form, const}], ...}"""
    rng = g.rng
    n = rng.randint(3, 9)
    codes = set()
    while len(codes) < n:
        codes.add(rng.choice([rng.randint(1, 20), rng.randint(1, 300), rng.getrandbits(rng.choice([14, 32, 70])) + 1]))
    decls = []
    for i, code in enumerate(sorted(codes, key=lambda _: rng.random())):
        kids = rng.random() < 0.5
        nat = rng.choice([0, 1, 2, 3, 4, 6])
        names = []
        attrs = []
        if kids and rng.random() < 0.6:
            f = rng.choice(UNIT_REF + [0x10, 0x16, 0x13, 0x13])
            attrs.append({'name': AT_SIBLING, 'form': f, 'role': 'sibling'})
            names.append(AT_SIBLING)
        if getattr(g, 'prefer_sig8', False) and rng.random() < 0.5:
            # a type-signature reference (directly or through DW_FORM_indirect) in about half of the abbreviations
            attrs.append({'name': AT_TYPE, 'form': rng.choice([0x20, 0x20, 0x16]), 'role': 'ref', 'sig8': True})
            names.append(AT_TYPE)
        for _ in range(nat):
            nm = rng.choice(KNOWN_ATS + UNKNOWN_ATS + [AT_TYPE, AT_NAME])
            if nm in names or nm == AT_SIBLING or nm == AT_IMPORT:
                continue
            names.append(nm)
            form = STD_FORMS[nforms_cursor[0] % len(STD_FORMS)] if rng.random() < 0.7 else rng.choice(STD_FORMS)
            nforms_cursor[0] += 1
            a = {'name': nm, 'form': form, 'role': None}
            if nm == AT_TYPE:
                a['form'] = rng.choice(UNIT_REF + [0x10, 0x20, 0x16])
                a['role'] = 'ref'
            attrs.append(a)
        tag = rng.choice(KNOWN_TAGS + UNKNOWN_TAGS)
        if rng.random() < 0.15 and AT_IMPORT not in names:
            # DW_TAG_imported_unit with DW_AT_import in a section-relative or unit-relative reference form (what dwz
            # emits for partial units of the same file); no supplementary file is configured, so the entry stays an
            # ordinary entry of the unit
            tag = TAG_IMPORTED_UNIT
            attrs.append({'name': AT_IMPORT, 'form': rng.choice([0x10, 0x10, 0x13, 0x02, 0x16]), 'role': 'ref'})
            names.append(AT_IMPORT)
        rng.shuffle(attrs)
        decls.append({'code': code, 'tag': tag, 'kids': kids, 'attrs': attrs})
    if with_root:
        # the root abbreviation carries the base attributes, sometimes after attributes that need them
        base_form = lambda: rng.choice([0x17, 0x17, 0x06, 0x0f, 0x16])
        attrs = [{'name': AT_STR_OFFSETS_BASE, 'form': base_form(), 'role': 'base'},
                 {'name': AT_ADDR_BASE, 'form': base_form(), 'role': 'base'},
                 {'name': AT_RNGLISTS_BASE, 'form': base_form(), 'role': 'base'},
                 {'name': AT_LOCLISTS_BASE, 'form': base_form(), 'role': 'base'},
                 {'name': AT_NAME, 'form': rng.choice(STRX + [0x0e, 0x08, 0x1f]), 'role': None},
                 {'name': 0x11, 'form': rng.choice(ADDRX + [0x01]), 'role': None},
                 {'name': 0x55, 'form': rng.choice([0x23, 0x17]), 'role': None},
                 {'name': 0x02, 'form': rng.choice([0x22, 0x17, 0x18]), 'role': None}]
        rng.shuffle(attrs)
        # codes are arbitrary and declared in no particular order: the root's code is as random as the others and
        # its declaration sits anywhere in the table (small codes after large ones and vice versa)
        code = None
        while code is None or code in codes:
            code = rng.choice([rng.randint(1, 20), rng.randint(1, 300), rng.getrandbits(rng.choice([14, 32, 70])) + 1])
        decls.insert(rng.randint(0, len(decls)),
                     {'code': code, 'tag': rng.choice([0x11, 0x3c, 0x41, 0x4a]), 'kids': rng.random() < 0.9,
                      'attrs': attrs, 'root': True})
    for d in decls:
        d['code_l'] = L(rng, d['code'])
        d['tag_l'] = L(rng, d['tag'])
        d['end'] = (uleb(0, rng.choice([0, 0, 0, 1])), uleb(0, rng.choice([0, 0, 0, 2])))
        for a in d['attrs']:
            a['name_l'] = L(rng, a['name'])
            a['form_l'] = L(rng, a['form'])
            if a['form'] == 0x21:
                v = rnd_sleb_value(rng)
                a['const'] = [v, sleb(v, rng.choice([0, 0, 1, 2]))]
            else:
                a['const'] = 'none'
    return {'decls': decls, 'end': uleb(0, rng.choice([0, 0, 0, 1, 3]))}


def table_abs(t):
    return [[[d['code_l'], d['tag_l'], 1 if d['kids'] else 0,
              [[a['name_l'], a['form_l'], a['const']] for a in d['attrs']], d['end'][0], d['end'][1]]
             for d in t['decls']], t['end']]


def gen_node(g, cfg, table, env, depth, budget, root=False):
    rng = g.rng
    decls = table['decls']
    if root:
        cand = [d for d in decls if d.get('root')] or decls
    else:
        cand = [d for d in decls if not d.get('root')] or decls
        if depth >= env['maxdepth'] or budget[0] <= 0:
            leafy = [d for d in cand if not d['kids']]
            cand = leafy or cand
    d = rng.choice(cand)
    budget[0] -= 1
    vals = []
    for a in d['attrs']:
        e = dict(env)
        if a['role'] == 'sibling' and a['form'] == 0x16:
            e['indirect_to'] = rng.choice(UNIT_REF + ([0x10] if env['in_info'] else []))
        if a['role'] == 'ref' and a['form'] == 0x16:
            e['indirect_to'] = 0x20 if a.get('sig8') else rng.choice(UNIT_REF + [0x10, 0x20])
        if a['role'] == 'base' and a['form'] == 0x16:
            e['indirect_to'] = rng.choice([0x17, 0x06, 0x0f])
        vals.append(g.operand(cfg, a['form'], e))
    node = {'decl': d, 'vals': vals, 'kids': [], 'term': uleb(0, rng.choice([0, 0, 0, 0, 1, 2]))}
    if d['kids'] and depth < env['maxdepth'] and budget[0] > 0:
        n = rng.choice([0, 1, 1, 2, 3, env['fanout']])
        for _ in range(n):
            if budget[0] <= 0:
                break
            node['kids'].append(gen_node(g, cfg, table, env, depth + 1, budget))
    return node


def node_abs(n):
    return [n['decl']['code_l'], n['vals'], [node_abs(k) for k in n['kids']], n['term']]


def preorder(n, parent=None, out=None):
    """(node or None for a terminator, owner) in the order of Spec.C04Sem.relations"""
    if out is None:
        out = []
    out.append((n, parent, False))
    if n['decl']['kids']:
        for k in n['kids']:
            preorder(k, n, out)
        out.append((n, n, True))       # the null entry closing n's children
    return out


KINDS5 = ['compile', 'partial', 'skeleton', 'split_compile', 'type', 'split_type']


def kind_abs(u):
    k = u['kind']
    if k in ('skeleton', 'split_compile'):
        return [k, u['dwo_id']]
    if k in ('type', 'split_type', 'types4'):
        return [k, u['sig'], u['type_off']]
    return [k]


def unit_abs(u):
    return [list(u['cfg']), kind_abs(u), u['abbrev_off'], table_abs(u['table']), node_abs(u['root'])]


def world_abs(w):
    return [w['le'], [unit_abs(u) for u in w['info']], [unit_abs(u) for u in w['types']], w['abbrev'],
            w['str'], w['line_str'], w['str_offsets'], w['addr'], w['loclists'], w['rnglists'], w.get('types_absent', 0),
            w.get('history', []), w.get('env', ['bytesio', 0]), w.get('high', 0)]


def rnd_bytes(rng, n, nonzero=False):
    return bytes(rng.randint(1 if nonzero else 0, 255) for _ in range(n))


def int_bytes(v, n, le):
    return v.to_bytes(n, 'little' if le else 'big')


def gen_world(g, ctx, nunits_info, nunits_types, maxnodes, maxdepth=8, fanout=6, types_state=None, v5_type_units=0):
    rng = g.rng
    le = rng.choice([1, 0])
    w = {'le': le, 'info': [], 'types': []}
    # string sections: arbitrary strings, last byte NUL so that every offset has a terminator
    def strsec():
        parts = [rnd_bytes(rng, rng.choice([0, 1, 3, 8, 20, 63, 64, 65, 130]), True) + b'\0' for _ in range(rng.randint(1, 8))]
        return b''.join(parts)
    w['str'] = strsec()
    w['line_str'] = strsec()
    str_offsets = bytearray(rnd_bytes(rng, rng.randint(0, 9)))
    addr = bytearray(rnd_bytes(rng, rng.randint(0, 9)))
    loclists = bytearray(rnd_bytes(rng, rng.randint(0, 9)))
    rnglists = bytearray(rnd_bytes(rng, rng.randint(0, 9)))
    tables = []
    cursor = [rng.randrange(len(STD_FORMS))]
    specs = [('info', i) for i in range(nunits_info)] + [('types', i) for i in range(nunits_types)]
    sigs = set()
    for where, i in specs:
        if where == 'types':
            cfg = (le, rng.choice([0, 1]), rng.choice([0, 1]), 4)
            kind = 'types4'
        else:
            ver = 5 if i < v5_type_units else rng.choice([2, 3, 4, 5, 5])
            cfg = (le, rng.choice([0, 1]), rng.choice([0, 1]), ver)
            kind = rng.choice(KINDS5) if ver == 5 else 'legacy'
            if i < v5_type_units:
                kind = rng.choice(['type', 'split_type'])
        if tables and rng.random() < 0.35:
            table = rng.choice(tables)        # shared abbreviation table
        else:
            table = gen_table(g, cursor)
            tables.append(table)
        u = {'cfg': cfg, 'kind': kind, 'table': table, 'where': where}
        osz = 8 if cfg[1] else 4
        asz = 8 if cfg[2] else 4
        # this unit's index tables
        bases = {}
        for name, sec, esz, maxv in ((AT_STR_OFFSETS_BASE, str_offsets, osz, len(w['str'])), (AT_ADDR_BASE, addr, asz, None),
                                     (AT_RNGLISTS_BASE, rnglists, osz, 1 << 20), (AT_LOCLISTS_BASE, loclists, osz, 1 << 20)):
            sec += rnd_bytes(rng, rng.randint(0, 5))
            bases[name] = len(sec)
            for _ in range(NTAB):
                v = rng.randrange(maxv) if maxv else rng.getrandbits(8 * esz)
                sec += int_bytes(v, esz, le)
        u['bases'] = bases
        env = {'str': w['str'], 'line_str': w['line_str'], 'maxdepth': rng.choice([1, 2, 4, maxdepth]), 'fanout': fanout,
               'in_info': where == 'info'}
        u['root'] = gen_node(g, cfg, table, env, 0, [rng.randint(1, maxnodes)], root=True)
        if kind in ('skeleton', 'split_compile'):
            u['dwo_id'] = rng.getrandbits(64)
        if kind in ('type', 'split_type', 'types4'):
            s = rng.getrandbits(64)
            while s in sigs:
                s = rng.getrandbits(64)
            sigs.add(s)
            u['sig'] = s
            u['type_off'] = 0     # patched
        w[where].append(u)
    w['str_offsets'], w['addr'], w['loclists'], w['rnglists'] = bytes(str_offsets), bytes(addr), bytes(loclists), bytes(rnglists)
    if v5_type_units:
        rng.shuffle(w['info'])            # the type units sit anywhere among the other units
    # the .debug_types section: absent (the normal DWARF 5 layout) / present but empty / present with v4 type units
    if w['types']:
        w['types_absent'] = 0
    else:
        w['types_absent'] = 1 if (types_state or rng.choice(['absent', 'empty'])) == 'absent' else 0
    # by-offset accesses (get_CU_at) made on the object before the observations are repeated: the last unit first
    # (nothing before it is cached yet), any unit, several units in any order
    n = len(w['info'])
    r = rng.random()
    if r < 0.35:
        w['history'] = [n - 1]
    elif r < 0.55:
        w['history'] = [n - 1, rng.randrange(n)]
    elif r < 0.85:
        w['history'] = [rng.randrange(n) for _ in range(rng.randint(1, min(4, n + 1)))]
    else:
        w['history'] = []
    # ---- .debug_abbrev: tables at arbitrary offsets, garbage in between
    encs = ctx.driver.batch([['enc_atable', table_abs(t)] for t in tables])
    sec = bytearray()
    for t, e in zip(tables, encs):
        sec += rnd_bytes(rng, rng.choice([0, 0, 1, 5, 17]))
        t['off'] = len(sec)
        sec += e
    sec += rnd_bytes(rng, rng.choice([0, 3]))
    w['abbrev'] = bytes(sec)
    for u in w['info'] + w['types']:
        u['abbrev_off'] = u['table']['off']
    patch_world(g, ctx, w)
    return w


def patch_world(g, ctx, w):
    """give base attributes, DW_AT_sibling and reference attributes their meaning (needs the layout)"""
    rng = g.rng
    units = w['info'] + w['types']
    for u in units:                                  # base attributes: known up front
        root = u['root']
        for a, v in zip(root['decl']['attrs'], root['vals']):
            if a['role'] == 'base' and root['decl'].get('root'):
                op = innermost(v)
                if op[0] == 'u':
                    op[1] = u['bases'][a['name']]
                else:
                    op[1] = u['bases'][a['name']]
                    op[2] = uleb(op[1], rng.choice([0, 1]))
    for attempt in range(6):
        lay = ctx.driver.batch([['layout', unit_abs(u), 0] for u in units])
        off = {'info': 0, 'types': 0}
        for u, l in zip(units, lay):
            u['off'] = off[u['where']]
            off[u['where']] += l[0]
            u['entries'] = l[2]
        all_targets = []
        for u in w['info']:
            pre = preorder(u['root'])
            all_targets += [u['off'] + e[0] for (n, p, is_term), e in zip(pre, u['entries']) if not is_term]
        type_units = [u for u in units if 'sig' in u]
        changed = False
        for u in units:
            pre = preorder(u['root'])
            assert len(pre) == len(u['entries']), (len(pre), len(u['entries']))
            node_off = {}
            term_off = {}
            for (n, p, is_term), e in zip(pre, u['entries']):
                if is_term:
                    term_off[id(n)] = u['off'] + e[0]
                else:
                    node_off[id(n)] = u['off'] + e[0]
            nonnull = [u['off'] + e[0] for (n, p, is_term), e in zip(pre, u['entries']) if not is_term]
            if 'sig' in u:
                u['type_off'] = rng.choice(nonnull) - u['off']
            for (n, p, is_term) in pre:
                if is_term:
                    continue
                for a, v in zip(n['decl']['attrs'], n['vals']):
                    ff = final_form(a['form'], v)
                    if a['role'] == 'sibling':
                        if p is None:
                            target = rng.choice(nonnull)
                        else:
                            i = [id(k) for k in p['kids']].index(id(n))
                            target = node_off[id(p['kids'][i + 1])] if i + 1 < len(p['kids']) else term_off[id(p)]
                    elif a['name'] == AT_IMPORT and ff == 0x10:
                        target = _import_target(rng, w, u, n, pre, node_off)
                    elif a['role'] == 'ref' or ff in UNIT_REF or ff == 0x10:
                        if ff in UNIT_REF:
                            target = rng.choice(nonnull)
                        elif ff == 0x10:
                            target = rng.choice(all_targets) if all_targets else 0
                        else:
                            target = None
                    else:
                        target = None
                    if ff == 0x20 and type_units and (a.get('sig8') or rng.random() < 0.9):
                        set_int(v, rng.choice(type_units)['sig'])
                        continue
                    if target is None:
                        continue
                    val = target - u['off'] if ff in UNIT_REF else target
                    if ff not in UNIT_REF and ff != 0x10:
                        continue
                    if fits(u['cfg'], g, ff, val):
                        set_int(v, val)
                    elif a['role'] == 'sibling' or a['role'] == 'ref':
                        # the value does not fit this form: widen the abbreviation and lay out again
                        if a['form'] != 0x16:
                            a['form'] = 0x13 if val < 2**32 else 0x14
                            a['form_l'] = [a['form'], uleb(a['form'])]
                            a['const'] = 'none'
                            regen_attr(g, w, a)
                        else:
                            v[1] = [0x14, uleb(0x14)]
                            v[2] = ['u', 0]
                        changed = True
                    else:
                        set_int(v, val % (1 << (8 * g.cls(u['cfg'], ff))))   # an arbitrary-form attribute: stays unresolvable
        if not changed:
            return
        # a changed abbreviation changes the abbrev section as well
        rebuild_abbrev(g, ctx, w)
    raise RuntimeError('layout did not converge')


def _import_target(rng, w, u, n, pre, node_off):
    """where a section-relative DW_AT_import points: the top entry of a unit further on in .debug_info (what dwz emits
    for a partial unit), else an entry further on in the same unit, else the importing entry itself -- imports never
    form a cycle, as in real files"""
    idx = [i for i, x in enumerate(w['info']) if x is u]
    roots = [x['off'] + x['entries'][0][0] for i, x in enumerate(w['info']) if not idx or i > idx[0]]
    if roots:
        return rng.choice(roots)
    seen = False
    later = []
    for (m, _, is_term) in pre:
        if seen and not is_term:
            later.append(node_off[id(m)])
        if m is n and not is_term:
            seen = True
    return rng.choice(later) if later else node_off[id(n)]


def regen_attr(g, w, a):
    """operands of every entry using attribute spec a must follow its new form"""
    for u in w['info'] + w['types']:
        for (n, p, is_term) in preorder(u['root']):
            if is_term:
                continue
            for i, b in enumerate(n['decl']['attrs']):
                if b is a:
                    n['vals'][i] = ['u', 0]


def rebuild_abbrev(g, ctx, w):
    tables = []
    for u in w['info'] + w['types']:
        if not any(t is u['table'] for t in tables):
            tables.append(u['table'])
    encs = ctx.driver.batch([['enc_atable', table_abs(t)] for t in tables])
    sec = bytearray()
    for t, e in zip(tables, encs):
        sec += rnd_bytes(g.rng, g.rng.choice([0, 0, 1, 5]))
        t['off'] = len(sec)
        sec += e
    w['abbrev'] = bytes(sec)
    for u in w['info'] + w['types']:
        u['abbrev_off'] = u['table']['off']


def one_form_world(g, ctx, cfg, form):
    """one unit, one entry: attribute of the form, then a sentinel (DESIGN 4.4 Search)"""
    rng = g.rng
    le = cfg[0]
    w = {'le': le, 'info': [], 'types': []}
    w['str'] = b'abc\0' + rnd_bytes(rng, 5, True) + b'\0'
    w['line_str'] = b'\0xyz\0'
    osz = 8 if cfg[1] else 4
    asz = 8 if cfg[2] else 4
    so = b''.join(int_bytes(rng.randrange(len(w['str'])), osz, le) for _ in range(NTAB))
    ad = b''.join(int_bytes(rng.getrandbits(8 * asz), asz, le) for _ in range(NTAB))
    ll = b''.join(int_bytes(rng.getrandbits(16), osz, le) for _ in range(NTAB))
    w['str_offsets'], w['addr'], w['loclists'], w['rnglists'] = b'\x07' * 3 + so, b'\x09' + ad, ll, b'\x01\x02' + ll
    attrs = [{'name': AT_STR_OFFSETS_BASE, 'form': 0x17, 'role': 'base'}, {'name': AT_ADDR_BASE, 'form': 0x17, 'role': 'base'},
             {'name': AT_RNGLISTS_BASE, 'form': 0x17, 'role': 'base'}, {'name': AT_LOCLISTS_BASE, 'form': 0x17, 'role': 'base'},
             {'name': 0x3e, 'form': form, 'role': None}, {'name': 0x0b, 'form': 0x0b, 'role': None}]
    decl = {'code': 1, 'tag': 0x11, 'kids': False, 'attrs': attrs, 'root': True,
            'code_l': [1, uleb(1)], 'tag_l': [0x11, uleb(0x11)], 'end': (b'\0', b'\0')}
    for a in attrs:
        a['name_l'] = [a['name'], uleb(a['name'])]
        a['form_l'] = [a['form'], uleb(a['form'])]
        a['const'] = [-5, sleb(-5)] if a['form'] == 0x21 else 'none'
    table = {'decls': [decl], 'end': b'\0', 'off': 0}
    ver = cfg[3]
    u = {'cfg': tuple(cfg), 'kind': 'compile' if ver == 5 else 'legacy', 'table': table, 'where': 'info', 'abbrev_off': 0,
         'bases': {AT_STR_OFFSETS_BASE: 3, AT_ADDR_BASE: 1, AT_RNGLISTS_BASE: 2, AT_LOCLISTS_BASE: 0}}
    env = {'str': w['str'], 'line_str': w['line_str'], 'maxdepth': 0, 'fanout': 0, 'in_info': True}
    vals = [['u', u['bases'][a['name']]] if a['role'] == 'base' else None for a in attrs]
    op = g.operand(cfg, form, env)
    ff = final_form(form, op)
    if ff in UNIT_REF or ff == 0x10:
        hs = (12 if cfg[1] else 4) + 2 + (1 if ver == 5 else 0) + 1 + osz
        if fits(cfg, g, ff, hs):
            set_int(op, hs)          # the only entry of the unit
    vals[4] = op
    vals[5] = ['u', 0xa5]
    u['root'] = {'decl': decl, 'vals': vals, 'kids': [], 'term': b'\0'}
    w['info'].append(u)
    w['_table'] = table        # gen() encodes the tables of all one_form cases in one driver batch
    return w


# ------------------------------------------------------------------ case generation
def _with_env(rng, w, p_drop):
    """the environment of the case: the kind of stream every section is handed over as (tools/lib/streams.py; all kinds
    present the same bytes) and whether owners are dropped while their children are still queried:
    0 no; 1 the DWARFInfo is deleted (+ gc.collect()) once the unit objects have been obtained from it;
    2 additionally each unit object is deleted once its entries have been obtained"""
    from tools.lib.streams import draw_kind
    # real files cost ~1 ms per section stream and a case opens dozens: mostly BytesIO for the many one-entry cases
    w['env'] = [draw_kind(rng, 0.8 if p_drop < 0.2 else 0.55), rng.choice([1, 2]) if rng.random() < p_drop else 0]
    return w


def gen(ctx):
    cls = ctx.driver.batch([['std_class', list(c), f] for c in CONFIGS for f in STD_FORMS])
    classes = {}
    it = iter(cls)
    for c in CONFIGS:
        for f in STD_FORMS:
            r = next(it)
            classes[(tuple(c), f)] = r[1]
    g = Gen(ctx, classes)
    cases = []
    cfgs = CONFIGS if ctx.tier == 'thorough' else CONFIGS
    ofw = [_with_env(ctx.rng, one_form_world(g, ctx, c, f), 0.08) for c in cfgs for f in STD_FORMS]
    for w, enc in zip(ofw, ctx.driver.batch([['enc_atable', table_abs(w['_table'])] for w in ofw])):
        w['abbrev'] = enc
        cases.append(('one_form', world_abs(w)))
    n = ctx.scale(120, 2500)
    for i in range(n):
        r = ctx.rng.random()
        if r < 0.3:
            w = gen_world(g, ctx, 1, 0, ctx.rng.choice([1, 5, 30]))
        elif r < 0.5:
            w = gen_world(g, ctx, ctx.rng.randint(1, 3), ctx.rng.randint(1, 2), ctx.rng.choice([3, 12]))
        else:
            w = gen_world(g, ctx, ctx.rng.randint(2, 5), ctx.rng.choice([0, 0, 1, 2]), ctx.rng.choice([3, 10, 40, ctx.scale(60, 150)]))
        cases.append(('world', world_abs(_with_env(ctx.rng, w, 0.45))))
    # type-signature references: DWARF 5 type units in .debug_info, with .debug_types absent / empty / holding v4 units
    g.prefer_sig8 = True
    for state in ('absent', 'empty', 'tus'):
        for _ in range(ctx.scale(6, 60)):
            w = gen_world(g, ctx, ctx.rng.randint(2, 4), ctx.rng.randint(1, 2) if state == 'tus' else 0,
                          ctx.rng.choice([3, 10]), types_state=state, v5_type_units=ctx.rng.randint(1, 2))
            cases.append(('sig8_world', world_abs(_with_env(ctx.rng, w, 0.45))))
    g.prefer_sig8 = False
    # offsets >= 2**32 (what 64-bit DWARF exists for): a unit placed behind a 4 GiB 64-bit-DWARF unit in a sparse real
    # file must decode as the same unit placed low does, offsets shifted (C04_section_unit_exact is parametric in what
    # precedes the unit).  The unit is self-contained: no section-relative or type-signature reference in it.
    for _ in range(ctx.scale(2, 6)):
        while True:
            w = gen_world(g, ctx, 1, 0, ctx.rng.choice([3, 10]), types_state='empty')
            forms = [final_form(a['form'], v) for u in w['info'] for (n, p, t) in preorder(u['root']) if not t
                     for a, v in zip(n['decl']['attrs'], n['vals'])]
            if 0x10 not in forms and 0x20 not in forms:
                break
        w['history'] = []
        w['env'] = ['file', 0]
        # unit_length of the unit in front: the observed unit starts a few bytes below, at or above 2**32
        w['high'] = 2 ** 32 - 12 - 8 + ctx.rng.choice([0, 8, ctx.rng.randrange(4, 200)])
        cases.append(('high_offset', world_abs(w)))
    return cases


# ------------------------------------------------------------------ the implementation's view
def _canon_value(v):
    if isinstance(v, bool):
        return ['bool', int(v)]
    if v is None:
        return 'none'
    if isinstance(v, int):
        return v
    if isinstance(v, (bytes, bytearray)):
        return bytes(v)
    if isinstance(v, (list, tuple)):
        return ['list'] + [int(x) for x in v]
    return ['py', type(v).__name__]


def _canon_raw(v):
    if isinstance(v, (list, tuple)):
        return ['list'] + [int(x) for x in v]
    if isinstance(v, (bytes, bytearray)):
        return bytes(v)
    if isinstance(v, int) and not isinstance(v, bool):
        return v
    return ['py', type(v).__name__]


def _nm(x):
    return x if isinstance(x, (str, int)) else ['py', type(x).__name__]


_OPEN = [lambda data, kind: io.BytesIO(data)]      # how section streams are opened: set per evaluate() to Streams().open


def _mk_dwarfinfo(secs, info_desc=None):
    """info_desc: (stream, size) to use for .debug_info instead of the bytes in secs"""
    from elftools.dwarf.dwarfinfo import DWARFInfo, DebugSectionDescriptor, DwarfConfig
    def D(name, data):
        return DebugSectionDescriptor(_OPEN[0](data, secs[10] if len(secs) > 10 else 'bytesio'), name, None, len(data), 0)
    le, info, abbrev, types, str_, line_str, str_offsets, addr, loclists, rnglists = secs[:10]
    return DWARFInfo(
        config=DwarfConfig(little_endian=bool(le), machine_arch='x64', default_address_size=8),
        debug_info_sec=(D('.debug_info', info) if info_desc is None else
                        DebugSectionDescriptor(info_desc[0], '.debug_info', None, info_desc[1], 0)),
        debug_aranges_sec=None, debug_abbrev_sec=D('.debug_abbrev', abbrev),
        debug_frame_sec=None, eh_frame_sec=None, debug_str_sec=D('.debug_str', str_), debug_loc_sec=None,
        debug_ranges_sec=None, debug_line_sec=None, debug_pubtypes_sec=None, debug_pubnames_sec=None,
        debug_addr_sec=D('.debug_addr', addr), debug_str_offsets_sec=D('.debug_str_offsets', str_offsets),
        debug_line_str_sec=D('.debug_line_str', line_str), debug_loclists_sec=D('.debug_loclists', loclists),
        debug_rnglists_sec=D('.debug_rnglists', rnglists), debug_sup_sec=None, gnu_debugaltlink_sec=None,
        debug_types_sec=None if types is None else D('.debug_types', types))


REF_FORMS = ('DW_FORM_ref1', 'DW_FORM_ref2', 'DW_FORM_ref4', 'DW_FORM_ref8', 'DW_FORM_ref', 'DW_FORM_ref_udata',
             'DW_FORM_ref_addr', 'DW_FORM_ref_sig8')


def _err(e):
    return ['err', type(e).__name__]


def _impl_header(cu, is_tu):
    h = cu.header
    ut = h.get('unit_type') if not is_tu else None
    if is_tu:
        extra = [h['signature'], h['type_offset']]
    elif ut in ('DW_UT_skeleton', 'DW_UT_split_compile'):
        extra = [h['dwo_id']]
    elif ut in ('DW_UT_type', 'DW_UT_split_type'):
        extra = [h['type_signature'], h['type_offset']]
    else:
        extra = []
    return [h['unit_length'], int(cu.structs.dwarf_format == 64), h['version'], 'none' if ut is None else _nm(ut),
            h['debug_abbrev_offset'], h['address_size'], extra, cu.cu_offset, cu.cu_die_offset, cu.size]


def _impl_unit(di_factory, idx, box, is_tu, drop=0):
    """box: one-element list holding the unit (so that this function owns the only reference when drop == 2)"""
    cu = box.pop()
    hdr = _impl_header(cu, is_tu)
    try:
        dies = list(cu.iter_DIEs())
    except Exception as e:
        return [hdr, _err(e)]
    if drop >= 2:
        del cu                                        # the entries are all that is left of the unit
        gc.collect()
    # parents: a fresh DWARFInfo, entries fetched by offset in reverse order, so that
    # _search_ancestor_offspring (not the iteration side effect) answers
    parents = {}
    try:
        di2 = di_factory()
        cu2 = list(di2.iter_TUs() if is_tu else di2.iter_CUs())[idx]
        if drop:
            del di2
            gc.collect()
    except Exception as e:
        cu2 = None
        perr = _err(e)
    for d in reversed(dies):
        if cu2 is None:
            parents[d.offset] = perr
            continue
        try:
            p = cu2.get_DIE_from_refaddr(d.offset).get_parent()
            parents[d.offset] = 'none' if p is None else p.offset
        except Exception as e:
            parents[d.offset] = _err(e)
    term_of = {}
    for d in dies:
        if d.is_null() and isinstance(parents.get(d.offset), int):
            term_of[parents[d.offset]] = d.offset
    rels = []
    for d in dies:
        attrs = []
        refs = []
        for name, a in d.attributes.items():
            attrs.append([_nm(a.name), _nm(a.form), _canon_value(a.value), _canon_raw(a.raw_value), a.offset,
                          a.indirection_length])
            if a.form in REF_FORMS:
                try:
                    t = d.get_DIE_from_attribute(name)
                    refs.append(['ok', [int(not hasattr(t.cu, 'tu_offset')), t.cu.cu_offset, t.offset, t.size, t.abbrev_code]])
                except Exception as e:
                    refs.append(_err(e))
            else:
                refs.append('-')
        die = [d.offset, d.size, d.abbrev_code, 'none' if d.tag is None else _nm(d.tag),
               'none' if d.has_children is None else int(d.has_children), attrs]
        try:
            kids = [c.offset for c in d.iter_children()]
        except Exception as e:
            kids = _err(e)
        term = term_of.get(d.offset, 'none') if d.has_children else 'none'
        rels.append([die, kids, term, parents[d.offset], refs])
    return [hdr, rels]


def impl_report(secs, warm_offsets=(), drop=0):
    """warm_offsets: .debug_info unit offsets fetched with get_CU_at on every DWARFInfo object before it is used;
    drop: owners deleted while their children are still queried (see _with_env)"""
    def factory():
        di = _mk_dwarfinfo(secs)
        for off in warm_offsets:
            di.get_CU_at(off)
        return di
    out = []
    for is_tu in (False, True):
        try:
            di = factory()
            units = list(di.iter_TUs() if is_tu else di.iter_CUs())
        except Exception as e:
            out.append(_err(e))
            continue
        if drop:
            del di                                    # what a helper returning list(di.iter_CUs()) leaves behind
            gc.collect()
        res = []
        for i in range(len(units)):
            box = [units[i]]
            if drop:
                units[i] = None
            res.append(_impl_unit(factory, i, box, is_tu, drop))
        out.append(res)
    return out


def _tu_of(r):
    """the answer get_TU_by_sig8 must give, from the answer of get_DIE_by_sig8: (in .debug_info?, unit offset)"""
    if isinstance(r, list) and len(r) == 2 and r[0] == 'ok':
        return ['ok', r[1][:2]]
    return r


def impl_sig8(secs, sig):
    """DWARFInfo.get_DIE_by_sig8 / get_TU_by_sig8, each as the first query on a fresh object"""
    out = []
    try:
        t = _mk_dwarfinfo(secs).get_DIE_by_sig8(sig)
        out.append(['ok', [int(not hasattr(t.cu, 'tu_offset')), t.cu.cu_offset, t.offset, t.size, t.abbrev_code]])
    except Exception as e:
        out.append(_err(e))
    try:
        tu = _mk_dwarfinfo(secs).get_TU_by_sig8(sig)
        out.append(['ok', [int(not hasattr(tu, 'tu_offset')), tu.cu_offset]])
    except Exception as e:
        out.append(_err(e))
    return out


# ------------------------------------------------------------------ classification of a disagreement
def _first_diff(a, b, path=()):
    if type(a) != type(b) or not isinstance(a, list):
        return None if a == b else (path, a, b)
    if len(a) != len(b):
        for i in range(min(len(a), len(b))):
            d = _first_diff(a[i], b[i], path + (i,))
            if d:
                return d
        return (path + ('len',), len(a), len(b))
    for i in range(len(a)):
        d = _first_diff(a[i], b[i], path + (i,))
        if d:
            return d
    return None


HDR_FIELDS = ['unit_length', 'is64', 'version', 'unit_type', 'debug_abbrev_offset', 'address_size', 'extra',
              'cu_offset', 'cu_die_offset', 'size']
DIE_FIELDS = ['offset', 'size', 'abbrev_code', 'tag', 'has_children', 'attributes']
ATTR_FIELDS = ['name', 'form', 'value', 'raw_value', 'offset', 'indirection_length']


def _is_err(x):
    return isinstance(x, list) and len(x) == 2 and x[0] == 'err' and isinstance(x[1], str)


def classify(impl, spec, hint=None):
    """a stable key naming what disagrees first (section / field / form involved), and the two differing values.
    hint: the form under test of a one_form case."""
    if impl == spec:
        return None, None
    sfx = ('-' + str(hint)) if hint is not None else ''
    for si in range(2):
        sec = 'info' if si == 0 else 'types'
        ip, sp = impl[si], spec[si]
        if ip == sp:
            continue
        if _is_err(ip):
            return '%s/units-raise-%s%s' % (sec, ip[1], sfx), (ip, sp)
        if len(ip) != len(sp):
            return '%s/unit-count%s' % (sec, sfx), (len(ip), len(sp))
        for iu, su in zip(ip, sp):
            if iu == su:
                continue
            for f, a, b in zip(HDR_FIELDS, iu[0], su[0]):
                if a != b:
                    return '%s/header-%s' % (sec, f), (a, b)
            if _is_err(iu[1]):
                return '%s/entries-raise-%s%s' % (sec, iu[1][1], sfx), (iu[1], '...')
            if _is_err(su[1]) or not isinstance(su[1], list):
                return '%s/spec-shape' % sec, (iu[1], su[1])
            for ir, sr in zip(iu[1], su[1]):
                if ir == sr:
                    continue
                idie, sdie = ir[0], sr[0]
                if idie != sdie:
                    # attributes first: a wrong operand width shows up as a wrong raw value / offset of the next one
                    for ia, sa in zip(idie[5], sdie[5]):
                        if ia != sa:
                            for f, x, y in zip(ATTR_FIELDS, ia, sa):
                                if x != y:
                                    e = ('-raises-' + x[1]) if _is_err(x) else ''
                                    return '%s/attr-%s-%s%s' % (sec, f, sa[1], e), (ia, sa)
                    if len(idie[5]) != len(sdie[5]):
                        return '%s/attr-count%s' % (sec, sfx), (idie, sdie)
                    for f, x, y in zip(DIE_FIELDS, idie, sdie):
                        if x != y:
                            return '%s/entry-%s%s' % (sec, f, sfx), (idie, sdie)
                for f, i in (('children', 1), ('terminator', 2), ('parent', 3)):
                    if ir[i] != sr[i]:
                        e = ('-raises-' + ir[i][1]) if _is_err(ir[i]) else ''
                        return '%s/%s%s' % (sec, f, e), (ir[:4], sr[:4])
                for x, y, sa in zip(ir[4], sr[4], sdie[5]):
                    if x != y:
                        e = ('-raises-' + x[1]) if _is_err(x) else ''
                        return '%s/reference-%s%s' % (sec, sa[1], e), (x, y, sdie[0])
                return '%s/entry-shape' % sec, (ir, sr)
            if len(iu[1]) != len(su[1]):
                return '%s/entry-count%s' % (sec, sfx), (len(iu[1]), len(su[1]))
    if len(impl) > 3 and len(spec) > 3 and impl[3] != spec[3]:
        if _is_err(impl[3]):
            return 'after-history/raises-%s' % impl[3][1], (impl[3], '...')
        if impl[:2] == spec[:2] and len(impl[3]) == 2 and len(spec[3]) == 2:
            k, d = classify(impl[3], spec[3], None)
            return 'after-history/' + str(k), d
    if len(impl) > 2 and len(spec) > 2 and impl[2] != spec[2]:
        for ie, se in zip(impl[2], spec[2]):
            for f, i in (('get_DIE_by_sig8', 1), ('get_TU_by_sig8', 2)):
                if ie[i] != se[i]:
                    e = ('-raises-' + ie[i][1]) if _is_err(ie[i]) else ''
                    return 'sig8/%s%s' % (f, e), (ie, se)
        return 'sig8/shape', (impl[2], spec[2])
    return 'shape', (None, None)


def evaluate(ctx, cases):
    from tools.lib.streams import Streams, KINDS

    class CachedStreams(Streams):
        """a case builds a dozen DWARFInfo objects over the same ten sections: each section is written to disk once per
        batch of cases and opened afresh for every object (an independent stream each time, as Streams promises)"""
        def __init__(self, **kw):
            Streams.__init__(self, **kw)
            self._paths = {}

        def path_of(self, data):
            data = bytes(data)
            if not data:                      # the gzip kind fills the (empty) file it asks for: never shared
                return Streams.path_of(self, data)
            if data not in self._paths:
                self._paths[data] = Streams.path_of(self, data)
            return self._paths[data]

        def drop_files(self):
            self._paths = {}
            Streams.drop_files(self)
        close = drop_files

    S = CachedStreams(prefix='pv-c04-streams-')
    saved = _OPEN[0]
    _OPEN[0] = lambda data, kind: S.open(data, kind if kind in KINDS else 'bytesio')
    # the drop-owner steps call gc.collect(); the harness' own long-lived data (cases, recorded answers) is kept out of
    # those collections (gc.freeze) so that each one only looks at the objects of the case at hand
    gc.collect()
    gc.freeze()
    try:
        _evaluate(ctx, [c for c in cases if c[0] != 'high_offset'], S)
        _evaluate_high(ctx, [c for c in cases if c[0] == 'high_offset'], S)
    finally:
        _OPEN[0] = saved
        S.close()
        gc.unfreeze()
        gc.collect()


def _evaluate_high(ctx, cases, S):
    """the first unit of the world, observed at a section offset around 2**32 behind a sparse 64-bit-DWARF unit"""
    if not cases:
        return
    drv = ctx.driver
    worlds = [a for _, a in cases]
    secs = drv.batch([['sections', w] for w in worlds])
    wfs = drv.batch([['wf', w] for w in worlds])
    for (kind, w), (info, types), wf in zip(cases, secs, wfs):
        le = bool(w[0])
        L = w[13] if len(w) > 13 and isinstance(w[13], int) and w[13] >= 11 else 2 ** 32
        base = 12 + L
        order = 'little' if le else 'big'
        front = (b'\xff\xff\xff\xff' + L.to_bytes(8, order) + (4).to_bytes(2, order) + (0).to_bytes(8, order) + b'\x08')
        spec_u = drv.one(['spec_at', w, base])
        opened = []
        try:
            path = S.path_of(b'')
            with open(path, 'r+b') as f:          # sparse: only the two ends of the 4 GiB section are written
                f.write(front)
                f.seek(base)
                f.write(bytes(info))
            all_secs = [w[0], b'', w[3], types, w[4], w[5], w[6], w[7], w[8], w[9], 'bytesio']

            def factory():
                st = open(path, 'rb')
                opened.append(st)
                return _mk_dwarfinfo(all_secs, (st, base + len(info)))
            try:
                cu = factory().get_CU_at(base)
                impl_u = _impl_unit(factory, 1, [cu], False)
            except Exception as e:
                impl_u = _err(e)
        finally:
            for st in opened:
                st.close()
            S.drop_files()
        impl, spec = [[impl_u], []], [[spec_u], []]
        if _is_err(impl_u):
            key, d = 'high-offset/unit-raises-%s' % impl_u[1], (impl_u, '...')
        else:
            key, d = classify(impl, spec)
            key = None if key is None else 'high-offset/' + str(key)
        ctx.bump('kind', kind)
        ctx.bump('stream_kind', 'sparse file >= 4 GiB')
        ctx.bump('high_offset_unit_at', 'below 2**32' if base < 2 ** 32 else ('at 2**32' if base == 2 ** 32 else 'above 2**32'))
        ctx.record(kind, w, impl=impl, spec=spec, model=None, in_domain=all(wf), nontrivial=True, key=key,
                   detail=None if d is None else {'first_difference': list(d), 'unit_offset': base})


def _evaluate(ctx, cases, S):
    drv = ctx.driver
    ncase = [0]
    worlds = [a for _, a in cases]
    secs = drv.batch([['sections', w] for w in worlds])
    wfs = drv.batch([['wf', w] for w in worlds])
    specs = drv.batch([['spec', w] for w in worlds])
    models = drv.batch([['model_of_world', w] for w in worlds])
    # the signatures of all type units: looked up directly as well (get_DIE_by_sig8 / get_TU_by_sig8 on a fresh object)
    sigs_of = [[u[1][1] for u in w[1] if u[1][0] in ('type', 'split_type')] + [u[1][1] for u in w[2] if u[1][0] == 'types4']
               for w in worlds]
    sig_answers = iter(drv.batch([['sig8', w, sg] for w, sgs in zip(worlds, sigs_of) for sg in sgs]))
    for (kind, w), (info, types), wf, spec, model, sigs in zip(cases, secs, wfs, specs, models, sigs_of):
        types_absent = bool(len(w) > 10 and w[10]) and not w[2]
        env = w[12] if len(w) > 12 and isinstance(w[12], list) and len(w[12]) == 2 else ['bytesio', 0]
        stream_kind, drop = str(env[0]), (env[1] if env[1] in (0, 1, 2) else 0)
        all_secs = [w[0], info, w[3], None if types_absent else types, w[4], w[5], w[6], w[7], w[8], w[9], stream_kind]
        impl = impl_report(all_secs)
        impl_s, spec_s, model_s = [], [], []
        for sg in sigs:
            sp, mo = next(sig_answers)
            spec_s.append([sg, sp, _tu_of(sp)])
            model_s.append([sg, mo, _tu_of(mo)])
            impl_s.append([sg] + impl_sig8(all_secs, sg))
        impl, spec, model = impl + [impl_s], spec + [spec_s], model + [model_s]
        # the same observations on objects that first served by-offset accesses; the answers do not depend on history
        # (the model has no cache: DESIGN 2.4), so spec and model repeat their own answer
        history = [i for i in (w[11] if len(w) > 11 else []) if isinstance(i, int) and 0 <= i < len(w[1])]
        if (history or drop) and isinstance(spec[0], list):
            offs = [spec[0][i][0][7] for i in history]
            try:
                impl_h = impl_report(all_secs, offs, drop)
            except Exception as e:
                impl_h = _err(e)
            impl, spec, model = impl + [impl_h], spec + [spec[:2]], model + [model[:2]]
        else:
            impl, spec, model = impl + [[]], spec + [[]], model + [[]]
        ctx.bump('history', 'none' if not history else ('last unit first' if history[0] == len(w[1]) - 1 and len(w[1]) > 1 else 'other'))
        ctx.bump('stream_kind', stream_kind)
        ctx.bump('drop_owner', ['no', 'DWARFInfo', 'DWARFInfo + unit'][drop])
        ncase[0] += 1
        if ncase[0] % 6 == 0:
            S.drop_files()
        if drop:
            gc.collect()
            gc.freeze()
        in_domain = all(wf)
        hint = None
        if kind == 'one_form':
            try:
                hint = spec[0][0][1][0][0][5][4][1]
            except Exception:
                hint = '?'
        key, d = classify(impl, spec, hint)
        nent = sum(len(u[1]) for part in spec[:2] for u in part if isinstance(u[1], list))
        ctx.bump('kind', kind)
        ctx.bump('units', len(w[1]) + len(w[2]))
        ctx.bump('entries', nent if nent < 10 else ('10-49' if nent < 50 else '50+'))
        ctx.bump('wf', ''.join(str(int(x)) for x in wf))
        ctx.bump('debug_types', 'absent' if types_absent else ('empty' if not w[2] else 'v4 units'))
        ctx.bump('sig8_lookups', '%d%s' % (len(sigs), ' (.debug_types absent)' if types_absent and sigs else ''))
        try:
            chain = max([a[5] for part in spec[:2] for u in part if isinstance(u[1], list) for r in u[1] for a in r[0][5]] or [0])
        except Exception:
            chain = '?'
        ctx.bump('max_indirection_length', chain)
        if kind == 'one_form':
            ctx.bump('form', hint)
        detail = None
        if d is not None:
            detail = {'first_difference': list(d), 'stream_kind': stream_kind, 'drop_owner': drop}
        ctx.record(kind, w, impl=impl, spec=spec, model=model, in_domain=in_domain, nontrivial=nent >= 1,
                   key=key, detail=detail)
