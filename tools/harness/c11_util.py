"""Helpers of the C11 harness that do not depend on pyelftools' ELF layer:
 * a minimal, independent ELF section-table reader/rewriter (struct module only) that PLACES
   section bodies produced by the Coq builders into a new image (DESIGN 2.2.b: "for images
   assembled from many pieces at chosen offsets the harness does the assembly");
 * a builder of tiny synthetic ELF images in all four class/byte-order combinations;
 * the canonical full dump of a DWARFInfo (units, DIEs with attributes, line programs, CFI).
"""
import hashlib, struct

class RewriteError(Exception):
    pass


SHF_COMPRESSED = 0x800
SHT_PROGBITS, SHT_STRTAB, SHT_RELA, SHT_NOBITS, SHT_REL = 1, 3, 4, 8, 9


class Elf:
    """section table of an image; sections are dicts with the raw header fields + 'name' (bytes)"""
    def __init__(self, img):
        self.img = bytes(img)
        assert img[:4] == b'\x7fELF', 'not ELF'
        self.is64 = img[4] == 2
        self.le = img[5] == 1
        self.en = '<' if self.le else '>'
        if self.is64:
            self.ehfmt, self.shfmt = self.en + 'HHIQQQIHHHHHH', self.en + 'IIQQQQIIQQ'
        else:
            self.ehfmt, self.shfmt = self.en + 'HHIIIIIHHHHHH', self.en + 'IIIIIIIIII'
        (self.e_type, self.e_machine, self.e_version, self.e_entry, self.e_phoff, self.e_shoff, self.e_flags,
         self.e_ehsize, self.e_phentsize, self.e_phnum, self.e_shentsize, self.e_shnum,
         self.e_shstrndx) = struct.unpack_from(self.ehfmt, img, 16)
        self.shsize = struct.calcsize(self.shfmt)
        self.secs = []
        if self.e_shoff + self.e_shnum * self.e_shentsize > len(img) or (self.e_shnum and self.e_shstrndx >= self.e_shnum):
            raise RewriteError('section header table outside the file')
        for i in range(self.e_shnum):
            f = struct.unpack_from(self.shfmt, img, self.e_shoff + i * self.e_shentsize)
            self.secs.append(dict(zip(('sh_name', 'sh_type', 'sh_flags', 'sh_addr', 'sh_offset', 'sh_size',
                                       'sh_link', 'sh_info', 'sh_addralign', 'sh_entsize'), f)))
        if self.secs:
            st = self.secs[self.e_shstrndx]
            tab = img[st['sh_offset']:st['sh_offset'] + st['sh_size']]
            for s in self.secs:
                e = tab.find(b'\0', s['sh_name'])
                s['name'] = tab[s['sh_name']:e if e >= 0 else len(tab)]

    def body(self, i):
        s = self.secs[i]
        if s['sh_type'] == SHT_NOBITS:
            return b''
        return self.img[s['sh_offset']:s['sh_offset'] + s['sh_size']]

    def index(self, name):
        r = None
        for i, s in enumerate(self.secs):
            if s['name'] == name:
                r = i
        return r

    def chdr_size(self):
        return 24 if self.is64 else 12


def rewrite(elf, edits=None, add=(), drop=(), filler=b'', junk_after=b''):
    """New image: the original bytes, then (after `filler`) the new bodies, a new section-name
    string table and a new section header table.  edits: {index: {'name':..,'flags':..,'body':..,
    'type':..}}; add: list of dicts (name, type, flags, body, addralign, addr); drop: indices removed
    (sh_link / sh_info of the remaining headers are renumbered).  Untouched sections keep their
    offsets.  `junk_after` is put right after every new body (what follows a section is free)."""
    edits = edits or {}
    img = bytearray(elf.img) + bytearray(filler)
    secs = []
    remap = {}
    for i, s in enumerate(elf.secs):
        if i in drop:
            continue
        remap[i] = len(secs)
        s = dict(s)
        ed = edits.get(i, {})
        if 'name' in ed:
            s['name'] = ed['name']
        if 'flags' in ed:
            s['sh_flags'] = ed['flags']
        if 'type' in ed:
            s['sh_type'] = ed['type']
        if 'size' in ed:
            s['sh_size'] = ed['size']
        if 'body' in ed:
            s['sh_offset'] = len(img)
            s['sh_size'] = ed.get('size', len(ed['body']))
            img += ed['body'] + junk_after
        secs.append(s)
    for a in add:
        body = a.get('body', b'')
        al = a.get('addralign', 1)
        while len(img) % max(al, 1):
            img += b'\0'
        secs.append(dict(name=a['name'], sh_type=a.get('type', SHT_PROGBITS), sh_flags=a.get('flags', 0),
                         sh_addr=a.get('addr', 0), sh_offset=len(img), sh_size=len(body), sh_link=0, sh_info=0,
                         sh_addralign=al, sh_entsize=0))
        img += body + junk_after
    for s in secs:
        s['sh_link'] = remap.get(s['sh_link'], 0)
        if s['sh_type'] in (SHT_REL, SHT_RELA) or s['sh_flags'] & 0x40:      # SHF_INFO_LINK
            s['sh_info'] = remap.get(s['sh_info'], 0)
    strndx = remap.get(elf.e_shstrndx)
    if strndx is None or not secs:
        raise RewriteError('no usable section name table')
    tab = bytearray(b'\0')
    for s in secs:
        s['sh_name'] = len(tab)
        tab += s['name'] + b'\0'
    secs[strndx]['sh_offset'] = len(img)
    secs[strndx]['sh_size'] = len(tab)
    img += tab
    while len(img) % 8:
        img += b'\0'
    shoff = len(img)
    for s in secs:
        img += struct.pack(elf.shfmt, s['sh_name'], s['sh_type'], s['sh_flags'], s['sh_addr'], s['sh_offset'],
                           s['sh_size'], s['sh_link'], s['sh_info'], s['sh_addralign'], s['sh_entsize'])
    struct.pack_into(elf.ehfmt, img, 16, elf.e_type, elf.e_machine, elf.e_version, elf.e_entry, elf.e_phoff, shoff,
                     elf.e_flags, elf.e_ehsize, elf.e_phentsize, elf.e_phnum, elf.shsize, len(secs), strndx)
    return bytes(img)


def build_elf(le, is64, machine, flags, sections, e_type=1):
    """A tiny image from nothing: ELF header, a null section, the given sections
    (name, type, flags, addr, body), .shstrtab, section header table."""
    en = '<' if le else '>'
    ehsize = 64 if is64 else 52
    ident = b'\x7fELF' + bytes([2 if is64 else 1, 1 if le else 2, 1, 0, 0]) + b'\0' * 7
    ehfmt = en + ('HHIQQQIHHHHHH' if is64 else 'HHIIIIIHHHHHH')
    shfmt = en + ('IIQQQQIIQQ' if is64 else 'IIIIIIIIII')
    img = bytearray(ident + b'\0' * (ehsize - 16))
    hdrs = [dict(name=b'', sh_type=0, sh_flags=0, sh_addr=0, sh_offset=0, sh_size=0, sh_link=0, sh_info=0,
                 sh_addralign=0, sh_entsize=0)]
    for name, typ, fl, addr, body in sections:
        hdrs.append(dict(name=name, sh_type=typ, sh_flags=fl, sh_addr=addr, sh_offset=len(img), sh_size=len(body),
                         sh_link=0, sh_info=0, sh_addralign=1, sh_entsize=0))
        if typ != SHT_NOBITS:
            img += body
    tab = bytearray(b'\0')
    hdrs.append(dict(name=b'.shstrtab', sh_type=SHT_STRTAB, sh_flags=0, sh_addr=0, sh_offset=0, sh_size=0,
                     sh_link=0, sh_info=0, sh_addralign=1, sh_entsize=0))
    for h in hdrs:
        h['sh_name'] = len(tab)
        tab += h['name'] + b'\0'
    hdrs[-1]['sh_offset'] = len(img)
    hdrs[-1]['sh_size'] = len(tab)
    img += tab
    while len(img) % 8:
        img += b'\0'
    shoff = len(img)
    for h in hdrs:
        img += struct.pack(shfmt, h['sh_name'], h['sh_type'], h['sh_flags'], h['sh_addr'], h['sh_offset'],
                           h['sh_size'], h['sh_link'], h['sh_info'], h['sh_addralign'], h['sh_entsize'])
    struct.pack_into(ehfmt, img, 16, e_type, machine, 1, 0, 0, shoff, flags, ehsize, 0, 0,
                     struct.calcsize(shfmt), len(hdrs), len(hdrs) - 1)
    return bytes(img)


# ---------------------------------------------------------------- canonical dumps
def _canon(v, depth=0):
    if isinstance(v, (bytes, bytearray)):
        return ('b', bytes(v).hex())
    if isinstance(v, (int, str, bool)) or v is None:
        return v
    if isinstance(v, float):
        return repr(v)
    if isinstance(v, dict):
        return ('d', tuple((str(k), _canon(x, depth + 1)) for k, x in sorted(v.items(), key=lambda kv: str(kv[0]))))
    if isinstance(v, (list, tuple)):
        return tuple(_canon(x, depth + 1) for x in v)
    if hasattr(v, '_asdict'):
        return _canon(v._asdict(), depth + 1)
    if hasattr(v, '__dict__') and depth < 6:
        return (type(v).__name__, _canon({k: x for k, x in vars(v).items() if not k.startswith('_')}, depth + 1))
    return repr(v)


def _guard(out, label, f):
    try:
        f()
    except Exception as e:                       # noqa: exceptions are part of the observable dump
        out.append((label, 'EXC', type(e).__name__))


def full_dump(dwarfinfo, eh=True):
    """Everything C11 names: all CUs (headers), all DIEs with attributes, the line program entries of
    every CU, the CFI entries of .debug_frame (and .eh_frame when eh) with their decoded tables, type
    units, aranges and name tables.  Returns (sha256, counts)."""
    out = []
    counts = dict(cus=0, dies=0, lines=0, cfi=0, ehcfi=0, tus=0)

    def units():
        for cu in dwarfinfo.iter_CUs():
            counts['cus'] += 1
            out.append(('CU', cu.cu_offset, _canon(dict(cu.header))))
            def dies(cu=cu):
                for die in cu.iter_DIEs():
                    counts['dies'] += 1
                    out.append(('DIE', die.offset, die.tag, die.abbrev_code, die.has_children, die.size,
                                tuple((a.name, a.form, _canon(a.value), _canon(a.raw_value), a.offset)
                                      for a in die.attributes.values())))
            _guard(out, 'dies', dies)
            def lines(cu=cu):
                lp = dwarfinfo.line_program_for_CU(cu)
                if lp is None:
                    out.append(('LP', None))
                    return
                out.append(('LPH', _canon(dict(lp.header))))
                for en in lp.get_entries():
                    counts['lines'] += 1
                    out.append(('LE', en.command, en.is_extended, _canon(en.args),
                                _canon(vars(en.state)) if en.state is not None else None))
            _guard(out, 'lines', lines)
    _guard(out, 'units', units)

    def tus():
        if dwarfinfo.has_debug_types() or dwarfinfo.debug_info_sec:
            for tu in dwarfinfo.iter_TUs():
                counts['tus'] += 1
                out.append(('TU', tu.tu_offset, _canon(dict(tu.header))))
                for die in tu.iter_DIEs():
                    counts['dies'] += 1
                    out.append(('TDIE', die.offset, die.tag,
                                tuple((a.name, a.form, _canon(a.value)) for a in die.attributes.values())))
    _guard(out, 'tus', tus)

    def cfi(entries, key):
        from elftools.dwarf.callframe import ZERO
        for e in entries:
            counts[key] += 1
            if isinstance(e, ZERO):
                out.append((key, 'ZERO', e.offset))
                continue
            item = [key, type(e).__name__, e.offset, _canon(dict(e.header)),
                    tuple((i.opcode, _canon(i.args)) for i in e.instructions)]
            try:
                d = e.get_decoded()
                item.append((_canon(d.reg_order), tuple(_canon({k: (_canon(vars(v)) if hasattr(v, '__dict__') else v)
                                                                for k, v in row.items()}) for row in d.table)))
            except Exception as ex:              # noqa
                item.append(('EXC', type(ex).__name__))
            out.append(tuple(item))
    if dwarfinfo.has_CFI():
        _guard(out, 'cfi', lambda: cfi(dwarfinfo.CFI_entries(), 'cfi'))
    if eh and dwarfinfo.has_EH_CFI():
        _guard(out, 'ehcfi', lambda: cfi(dwarfinfo.EH_CFI_entries(), 'ehcfi'))

    def tables():
        ar = dwarfinfo.get_aranges()
        if ar is not None:
            out.append(('aranges', tuple(_canon(e) for e in ar.entries)))
        for nm, get in (('pubnames', dwarfinfo.get_pubnames), ('pubtypes', dwarfinfo.get_pubtypes)):
            t = get()
            if t is not None:
                out.append((nm, tuple((k, _canon(v)) for k, v in t.items())))
    _guard(out, 'tables', tables)

    def lists():
        ll = dwarfinfo.location_lists()
        if ll is not None and not type(ll).__name__.endswith('Pair'):
            out.append(('loc', tuple(_canon(l) for l in ll.iter_location_lists())))
        rl = dwarfinfo.range_lists()
        if rl is not None and not type(rl).__name__.endswith('Pair'):
            out.append(('rng', tuple(_canon(l) for l in rl.iter_range_lists())))
    _guard(out, 'lists', lists)
    blob = repr(out).encode()
    return hashlib.sha256(blob).hexdigest()[:24], counts
