import sys, os, io, traceback
sys.path.insert(0, '/verif'); sys.path.insert(0, '/repo')
from tools.lib import framework as F
import importlib
exe, msg, stale = F.step_driver('C01', 'Extract/DrvC01.v')
ctx = F.Ctx('C01', 'quick', 0, F.Driver(exe))
h = importlib.import_module('tools.harness.c01')
cases = [c for c in h.gen(ctx) if c[0] == 'malformed']
from elftools.elf.elffile import ELFFile
for kind, a in cases:
    if a[4] != 'shoff': continue
    enc = ctx.driver.one(['encode', a[0]])
    img = h.mutate(h.assemble(a, enc), a)
    r = ctx.driver.one(['run', img, a[0], [['header']]])
    try:
        e = ELFFile(io.BytesIO(img)); impl = 'ok'
    except Exception as ex:
        impl = type(ex).__name__
        tb = traceback.format_exc()
    m = r[1][0]
    if (impl == 'ok') != (m[0] == 'ok') or (impl != 'ok' and impl != m[1]):
        print(impl, m[:2], 'len', len(img), 'is64', a[0][0])
        import struct
        print(tb[-1500:])
