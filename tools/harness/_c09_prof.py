import sys, os, time
sys.path.insert(0, '/verif'); sys.path.insert(0, '/repo')
from tools.lib import framework as F
import importlib
exe, msg, stale = F.step_driver('C09', 'Extract/DrvC09.v')
drv = F.Driver(exe)
h = importlib.import_module('tools.harness.c09')
d = '/repo/test/testfiles_for_unittests'
for fn in ['android_dyntags.elf', 'debug_info.elf', 'lib_versioned64.so.1.elf', 'simple_mipsel.elf']:
    data = open(os.path.join(d, fn), 'rb').read()
    t = time.time(); m = drv.batch([['observe', data, [b'x']]]); t1 = time.time() - t
    t = time.time(); w = drv.batch([['wf', data]]); t2 = time.time() - t
    t = time.time(); I = h._observe_impl(data, [b'x']); t3 = time.time() - t
    n = len(m[0][2][1]) if m[0][2][0] == 'ok' else -1
    print(fn, len(data), 'nsyms', n, 'observe %.1f wf %.1f impl %.1f' % (t1, t2, t3))
