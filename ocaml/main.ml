(* main.ml — generic line driver around the extracted [Drv.dispatch : sx -> sx].
   One request per input line, one answer per output line.
   Text syntax:  ints  0x1f / -0x1f ;  byte strings  #a0b1 (# alone = empty) ;
                 symbols  "text" (no escapes; chars 32..126 except the quote) ;
                 lists  ( ... ).
   Nothing here is property specific.  Z, positive, nat, string and ascii stay
   the extracted inductive types; the conversions below are the only glue. *)
type ostring = string
open Drv

(* ---- positive/Z <-> hex text ---- *)
let pos_of_bits (bits : bool list) : positive =
  (* bits: most significant first, head is the leading 1 *)
  match bits with
  | [] -> XH
  | _ :: rest -> List.fold_left (fun p b -> if b then XI p else XO p) XH rest

let z_of_hex (neg : bool) (h : ostring) : z =
  let bits = ref [] in
  String.iter (fun c ->
    let d = match c with
      | '0'..'9' -> Char.code c - 48
      | 'a'..'f' -> Char.code c - 87
      | 'A'..'F' -> Char.code c - 55
      | _ -> failwith "bad hex digit" in
    bits := (d land 1 <> 0) :: (d land 2 <> 0) :: (d land 4 <> 0) :: (d land 8 <> 0) :: !bits) h;
  (* !bits is least significant first *)
  let msb_first = List.rev !bits in
  let rec strip = function false :: r -> strip r | l -> l in
  match strip msb_first with
  | [] -> Z0
  | l -> let p = pos_of_bits l in if neg then Zneg p else Zpos p

let rec pos_bits (p : positive) (acc : bool list) : bool list =
  (* returns least significant first appended in order *)
  match p with
  | XH -> List.rev (true :: acc)
  | XO q -> pos_bits q (false :: acc)
  | XI q -> pos_bits q (true :: acc)

let hex_of_pos (p : positive) : ostring =
  let bits = pos_bits p [] in (* lsb first *)
  let buf = Buffer.create 16 in
  let rec go l acc = match l with
    | [] -> acc
    | _ ->
      let take n l = let rec t n l a = if n = 0 then (List.rev a, l) else
                        match l with [] -> (List.rev a, []) | x :: r -> t (n-1) r (x :: a) in t n l [] in
      let (nib, rest) = take 4 l in
      let v = List.fold_right (fun b a -> a * 2 + (if b then 1 else 0)) nib 0 in
      go rest ("0123456789abcdef".[v] :: acc) in
  List.iter (Buffer.add_char buf) (go bits []);
  Buffer.contents buf

let small_int_of_z (v : z) : int =
  let rec p2i = function XH -> 1 | XO q -> 2 * p2i q | XI q -> 2 * p2i q + 1 in
  match v with Z0 -> 0 | Zpos p -> p2i p | Zneg p -> - (p2i p)

let rec pos_of_int (n : int) : positive =
  if n = 1 then XH else if n land 1 = 0 then XO (pos_of_int (n lsr 1)) else XI (pos_of_int (n lsr 1))
let z_of_small (n : int) : z = if n = 0 then Z0 else if n > 0 then Zpos (pos_of_int n) else Zneg (pos_of_int (-n))

(* ---- Coq string <-> OCaml string ---- *)
let coq_string_of (s : ostring) : Drv.string =
  let n = String.length s in
  let rec go i = if i >= n then EmptyString else
    let c = Char.code s.[i] in
    let b k = c land (1 lsl k) <> 0 in
    String (Ascii (b 0, b 1, b 2, b 3, b 4, b 5, b 6, b 7), go (i + 1)) in
  go 0

let ocaml_string_of (s : Drv.string) : ostring =
  let buf = Buffer.create 16 in
  let rec go = function
    | EmptyString -> ()
    | String (Ascii (b0, b1, b2, b3, b4, b5, b6, b7), r) ->
      let v k b = if b then 1 lsl k else 0 in
      Buffer.add_char buf (Char.chr (v 0 b0 + v 1 b1 + v 2 b2 + v 3 b3 + v 4 b4 + v 5 b5 + v 6 b6 + v 7 b7));
      go r in
  go s; Buffer.contents buf

(* ---- reader ---- *)
let parse_line (s : ostring) : sx =
  let n = String.length s in
  let pos = ref 0 in
  let peek () = if !pos < n then s.[!pos] else '\000' in
  let rec skip () = if !pos < n && (s.[!pos] = ' ' || s.[!pos] = '\t' || s.[!pos] = '\r') then (incr pos; skip ()) in
  let token () =
    let st = !pos in
    while !pos < n && (match s.[!pos] with ' ' | '(' | ')' | '\t' | '\r' -> false | _ -> true) do incr pos done;
    String.sub s st (!pos - st) in
  let rec value () : sx =
    skip ();
    match peek () with
    | '(' -> incr pos; SL (items [])
    | '"' ->
      incr pos; let st = !pos in
      while !pos < n && s.[!pos] <> '"' do incr pos done;
      let t = String.sub s st (!pos - st) in incr pos; SS (coq_string_of t)
    | '#' ->
      incr pos; let t = token () in
      let m = String.length t / 2 in
      let rec bytes i acc = if i < 0 then acc else
          bytes (i - 1) (z_of_small (int_of_string ("0x" ^ String.sub t (2 * i) 2)) :: acc) in
      SB (bytes (m - 1) [])
    | _ ->
      let t = token () in
      let neg = String.length t > 0 && t.[0] = '-' in
      let t = if neg then String.sub t 1 (String.length t - 1) else t in
      if String.length t >= 2 && t.[0] = '0' && (t.[1] = 'x' || t.[1] = 'X')
      then SI (z_of_hex neg (String.sub t 2 (String.length t - 2)))
      else failwith ("bad token: " ^ t)
  and items acc =
    skip ();
    if !pos >= n then failwith "unterminated list"
    else if peek () = ')' then (incr pos; List.rev acc)
    else let v = value () in items (v :: acc) in
  value ()

(* ---- printer ---- *)
let rec print_sx (buf : Buffer.t) (v : sx) : unit =
  match v with
  | SI Z0 -> Buffer.add_string buf "0x0"
  | SI (Zpos p) -> Buffer.add_string buf "0x"; Buffer.add_string buf (hex_of_pos p)
  | SI (Zneg p) -> Buffer.add_string buf "-0x"; Buffer.add_string buf (hex_of_pos p)
  | SB bs ->
    let rec pos_depth p = match p with XH -> 1 | XO q | XI q -> 1 + pos_depth q in
    let inrange b = match b with Z0 -> true | Zpos p -> pos_depth p <= 8 | Zneg _ -> false in
    if List.for_all inrange bs then begin
      Buffer.add_char buf '#';
      List.iter (fun b -> Buffer.add_string buf (Printf.sprintf "%02x" (small_int_of_z b))) bs
    end else print_sx buf (SL (SS (coq_string_of "badbytes") :: List.map (fun b -> SI b) bs))
  | SS s -> Buffer.add_char buf '"'; Buffer.add_string buf (ocaml_string_of s); Buffer.add_char buf '"'
  | SL l ->
    Buffer.add_char buf '(';
    List.iteri (fun i x -> if i > 0 then Buffer.add_char buf ' '; print_sx buf x) l;
    Buffer.add_char buf ')'

let () =
  let buf = Buffer.create 65536 in
  (try
    while true do
      let line = input_line stdin in
      Buffer.clear buf;
      (try print_sx buf (dispatch (parse_line line))
       with
       | Stack_overflow -> Buffer.clear buf; Buffer.add_string buf "(\"err\" \"DRIVER-STACK\")"
       | Failure m -> Buffer.clear buf; Buffer.add_string buf ("(\"err\" \"DRIVER-" ^ m ^ "\")"));
      print_string (Buffer.contents buf); print_newline ()
    done
  with End_of_file -> ())
