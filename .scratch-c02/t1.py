from elfb import *
PT = dict(LOAD=1, DYNAMIC=2, NOTE=4, PHDR=6, TLS=7, EH=0x6474e550, STACK=0x6474e551, RELRO=0x6474e552, PROP=0x6474e553, SFRAME=0x6474e554, MBLO=0x6474e555, MBHI=0x6474e555+4095, MBHI1=0x6474e555+4096, INTERP=3, NULL=0)
secs = [dict(type=1, flags=0, addr=0, offset=0x1000, size=0x10),   # s1 non alloc progbits in range
        dict(type=1, flags=2, addr=0x1000, offset=0x1000, size=0x10), # s2 alloc
        dict(type=1, flags=2, addr=0x1000, offset=0x1000, size=0),  # s3 zero size at start
        dict(type=1, flags=2, addr=0x1100, offset=0x1100, size=0),  # s4 zero size at end
        dict(type=1, flags=2, addr=0x1080, offset=0x1080, size=0),  # s5 zero size in middle
        dict(type=8, flags=2, addr=0x1000, offset=0x5000, size=0),  # s6 zero size NOBITS at start addr, offset outside
        dict(type=8, flags=2, addr=0x1080, offset=0x5000, size=0),  # s7 zero size NOBITS mid
        dict(type=1, flags=0, addr=0x0, offset=0x1000, size=0),  # s8 zero size nonalloc at start
        dict(type=1, flags=0, addr=0x0, offset=0x1080, size=0),  # s9 zero nonalloc mid
        ]
segs = [dict(type=v, offset=0x1000, vaddr=0x1000, filesz=0x100, memsz=0x100) for v in PT.values()]
for is64 in (True, False):
    img = build(is64, True, 62 if is64 else 3, secs, segs)
    m, err = readelf_map(img, len(segs))
    for (k, v), i in zip(PT.items(), range(len(segs))):
        print(is64, k, m[i])
    print(err[:500])
