#!/bin/bash
# usage: mut.sh <name> <file> <python-expr-old> <python-expr-new>
name="$1"; file="$2"; old="$3"; new="$4"
rm -rf /tmp/repo-c02; cp -r /repo /tmp/repo-c02
python3 - "$file" "$old" "$new" <<'PY'
import sys
f, old, new = sys.argv[1:4]
p = '/tmp/repo-c02/' + f
t = open(p).read()
assert t.count(old) == 1, (t.count(old), old)
open(p, 'w').write(t.replace(old, new))
PY
[ $? -eq 0 ] || { echo "MUTATION $name: could not apply"; exit 1; }
echo "=== MUTATION $name"
(cd /tmp/repo-c02 && /venv/bin/python -m pytest -q -p no:cacheprovider --timeout=900 --continue-on-collection-errors 2>&1 | tail -1)
(cd /verif && VERIF_REPO=/tmp/repo-c02 ./check C02 2>&1 | grep -E "VIOLATION|KNOWN|obligations" )
for r in $(cd /verif && ls -t replays/C02-*.json | head -3); do :; done
rm -rf /tmp/repo-c02
