From Coq Require Import String.
From PV Require Import Base.Bytes Base.Fmt Spec.ElfGabi Spec.C02Spec.
From Coq Require Import ZifyBool.
Open Scope Z_scope.
Lemma chdr_fits_size le is64 ty res sz al : chdr_fits le is64 ty res sz al = true -> 0 <= sz.
Proof.
  unfold chdr_fits, fits_layout. destruct le, is64; cbn [spec_Elf_Chdr chdr_vals fits_fields nvals firstn skipn fits_kind length Nat.eqb annot_kind rev app]; unfold in_urange.
  all: intros H. Show.
Abort.
