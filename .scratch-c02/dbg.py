import sys, os
sys.path.insert(0, '/verif'); sys.path.insert(0, os.environ.get('VERIF_REPO', '/repo'))
os.chdir('/verif')
from tools.lib import framework as F
from tools.harness import c02
exe = F.OCAML / 'build' / 'c02' / 'drv'
ctx = F.Ctx('C02', os.environ.get('VERIF_TIER', 'quick'), 0, F.Driver(exe))
cases = list(c02.corpus(ctx)) + list(c02.gen(ctx))
only = sys.argv[1:] 
if only:
    cases = [c for c in cases if c[0] in only]
c02.evaluate(ctx, cases)
n = 0
for r in ctx.results:
    bad = (r['has_model'] and r['impl'] != r['model']) or (r['in_domain'] and r['impl'] != r['spec']) or (r['in_domain'] and r['has_model'] and r['model'] != r['spec'])
    if bad:
        n += 1
        if n <= 40:
            print(r['kind'], 'dom' if r['in_domain'] else 'out', r['key'], str(r['abstract'])[:260])
            print('   impl ', str(r['impl'])[:160]); print('   model', str(r['model'])[:160]); print('   spec ', str(r['spec'])[:160])
print(len(ctx.results), 'results', n, 'mismatching')
