import zlib, random
rng = random.Random(1)
bad = 0; n = 0
for trial in range(20000):
    L = rng.choice([0,1,2,3,63,64,65,127,128,129,255,256,257,258,259,260,300,1000,4095,4096,32768,32769,65535,65536,70000, rng.randint(0, 5000)])
    kind = rng.choice(['rand','zero','rep','text'])
    if kind == 'rand': p = bytes(rng.getrandbits(8) for _ in range(L))
    elif kind == 'zero': p = b'\0' * L
    elif kind == 'rep': p = (bytes(rng.getrandbits(8) for _ in range(rng.randint(1,7))) * (L+1))[:L]
    else: p = bytes(rng.choice(b'abcdefgh ') for _ in range(L))
    lvl = rng.randint(0, 9)
    if rng.random() < 0.3:
        co = zlib.compressobj(lvl, zlib.DEFLATED, rng.choice([9,10,12,15]), rng.randint(1,9), rng.choice([0,1,2,3,4]))
        z = b''
        i = 0
        while i < len(p):
            k = rng.randint(1, max(1, len(p)//3))
            z += co.compress(p[i:i+k]); i += k
            if rng.random() < 0.3: z += co.flush(rng.choice([zlib.Z_SYNC_FLUSH, zlib.Z_FULL_FLUSH]))
        z += co.flush()
    else:
        z = zlib.compress(p, lvl)
    for m in {0, len(p), len(p)+1, max(1, len(p)-1), max(1, len(p)//2), 1}:
        d = zlib.decompressobj()
        r = d.decompress(z, m)
        n += 1
        if m == 0: exp = (p, True)
        else: exp = (p[:m], len(p) <= m)
        if (r, d.eof) != exp:
            bad += 1
            if bad < 10: print('MISMATCH', L, kind, lvl, m, len(r), d.eof, len(d.unconsumed_tail))
        # unconsumed_tail criterion
        if m and len(p) > m and not d.unconsumed_tail:
            print('unconsumed_tail empty though capped', L, kind, lvl, m)
print(n, bad)
