import struct, subprocess, tempfile, os, re

def build(is64, le, machine, sections, segments, etype=2):
    """sections: list of dicts (without null); segments: list of dicts. Returns bytes.
    layout: ehdr | phdrs | shdrs | shstrtab"""
    E = '<' if le else '>'
    names = b'\0'
    name_off = []
    for i, s in enumerate(sections):
        name_off.append(len(names)); names += ('s%d' % (i + 1)).encode() + b'\0'
    shstr_name = len(names); names += b'.shstrtab\0'
    ehsize = 64 if is64 else 52
    phent = 56 if is64 else 32
    shent = 64 if is64 else 40
    phoff = ehsize
    shoff = phoff + phent * len(segments)
    nsec = len(sections) + 2
    stroff = shoff + shent * nsec
    ident = b'\x7fELF' + bytes([2 if is64 else 1, 1 if le else 2, 1, 0, 0]) + b'\0' * 7
    if is64:
        eh = ident + struct.pack(E + 'HHIQQQIHHHHHH', etype, machine, 1, 0, phoff if segments else 0, shoff, 0, ehsize, phent, len(segments), shent, nsec, nsec - 1)
    else:
        eh = ident + struct.pack(E + 'HHIIIIIHHHHHH', etype, machine, 1, 0, phoff if segments else 0, shoff, 0, ehsize, phent, len(segments), shent, nsec, nsec - 1)
    out = eh
    for g in segments:
        if is64:
            out += struct.pack(E + 'IIQQQQQQ', g['type'], g.get('flags', 4), g['offset'], g['vaddr'], g.get('paddr', g['vaddr']), g['filesz'], g['memsz'], g.get('align', 1))
        else:
            out += struct.pack(E + 'IIIIIIII', g['type'], g['offset'], g['vaddr'], g.get('paddr', g['vaddr']), g['filesz'], g['memsz'], g.get('flags', 4), g.get('align', 1))
    def shdr(name, type, flags, addr, offset, size, link=0, info=0, align=1, entsize=0):
        if is64:
            return struct.pack(E + 'IIQQQQIIQQ', name, type, flags, addr, offset, size, link, info, align, entsize)
        return struct.pack(E + 'IIIIIIIIII', name, type, flags, addr, offset, size, link, info, align, entsize)
    out += shdr(0, 0, 0, 0, 0, 0, 0, 0, 0, 0)
    for s, no in zip(sections, name_off):
        out += shdr(no, s['type'], s['flags'], s['addr'], s['offset'], s['size'])
    out += shdr(shstr_name, 3, 0, 0, stroff, len(names))
    out += names
    return out

def readelf_map(img, nseg):
    fd, p = tempfile.mkstemp(prefix='c02-', suffix='.elf', dir='/verif/.scratch-c02')
    os.write(fd, img); os.close(fd)
    try:
        r = subprocess.run(['/usr/bin/readelf', '-lW', p], stdout=subprocess.PIPE, stderr=subprocess.PIPE, text=True)
    finally:
        os.unlink(p)
    out = r.stdout
    i = out.find('Section to Segment mapping:')
    assert i >= 0, (out, r.stderr)
    res = {}
    for line in out[i:].splitlines()[2:]:
        m = re.match(r'^\s+(\d+)\s*(.*)$', line)
        if m:
            res[int(m.group(1))] = m.group(2).split()
    assert len(res) == nseg, (out, r.stderr)
    return res, r.stderr
