(* Proofs/C02Containment.v — Segment.section_in_segment (Model/C02Contents.v, unbounded
   Python integers) equals binutils' ELF_SECTION_IN_SEGMENT_STRICT (Spec/C02Spec.v, bfd_vma
   arithmetic modulo 2^64) for all header values in [0, 2^64), on the pairs that are not
   ELF_TBSS_SPECIAL and whose section extents do not wrap around 2^64; and the witness
   showing that the last restriction is needed. *)
From Coq Require Import String Btauto.
From PV Require Import Base.Bytes Base.Outcome Base.Prim Base.Fmt Base.Enum
     Gen.ElfLayouts Gen.Tables Spec.C02Spec Model.C02Contents Proofs.C02Proofs.
From Coq Require Import ZifyBool.
Open Scope Z_scope.
Ltac Zify.zify_post_hook ::= Z.to_euclidean_division_equations.

(* ---- the two places where unsigned wrap matters: x - 1 for x = 0, and nothing else once the
        extent a + sz stays below 2^64 ---- *)
Lemma sub64_small a p : 0 <= p <= a -> a < M64 -> sub64 a p = a - p.
Proof. intros H1 H2. unfold sub64. apply Z.mod_small. lia. Qed.

Lemma sub64_pred f : 0 <= f < M64 -> sub64 f 1 = if f =? 0 then M64 - 1 else f - 1.
Proof.
  intros H. unfold sub64. destruct (Z.eqb_spec f 0) as [->|N].
  - reflexivity.
  - apply Z.mod_small. lia.
Qed.

Lemma add64_small a b : 0 <= a + b < M64 -> add64 a b = a + b.
Proof. intros H. unfold add64. apply Z.mod_small. exact H. Qed.

(* extent condition: offset (or address) a of a section of size sz against a segment
   starting at p with size f *)
Lemma extent_cond a p sz f :
  0 <= a < M64 -> 0 <= p < M64 -> 0 <= sz < M64 -> 0 <= f < M64 -> a + sz < M64 ->
  (p <=? a) && (sub64 a p <=? sub64 f 1) && (add64 (sub64 a p) sz <=? f)
  = (p <=? a) && (a - p + sz <=? f) && ((f =? 0) || (a - p <=? f - 1)).
Proof.
  intros Ha Hp Hsz Hf Hnw. destruct (Z.leb_spec p a) as [Hle|Hgt]; [|reflexivity].
  rewrite sub64_small by lia. rewrite sub64_pred by lia. rewrite add64_small by lia.
  cbn [andb]. destruct (Z.eqb_spec f 0) as [->|N]; cbn [orb].
  - unfold M64. destruct (Z.leb_spec (a - p) (2 ^ 64 - 1)); [|unfold M64 in *; lia].
    cbn [andb]. rewrite andb_true_r. reflexivity.
  - apply andb_comm.
Qed.

(* strictly-inside condition of the zero-size clause *)
Lemma inside_cond a p f :
  0 <= a < M64 -> 0 <= p < M64 ->
  (p <? a) && (sub64 a p <? f) = (p <? a) && (a - p <? f).
Proof.
  intros Ha Hp. destruct (Z.ltb_spec p a) as [Hlt|Hge]; [|reflexivity].
  rewrite sub64_small by lia. reflexivity.
Qed.

(* the raw-integer range test of the model is the SFRAME / MBIND test of the macro *)
Lemma sframe_mbind pt :
  (PT_GNU_SFRAME_raw <=? pt) && (pt <=? PT_GNU_MBIND_HI_raw)
  = (pt =? PT_GNU_SFRAME) || ((PT_GNU_MBIND_LO <=? pt) && (pt <=? PT_GNU_MBIND_HI)).
Proof.
  unfold PT_GNU_SFRAME_raw, PT_GNU_MBIND_HI_raw, PT_GNU_SFRAME, PT_GNU_MBIND_LO, PT_GNU_MBIND_HI,
         PT_GNU_MBIND_LO, PT_GNU_MBIND_NUM. lia.
Qed.

Lemma u64_iff v : u64 v = true <-> 0 <= v < M64.
Proof. unfold u64. lia. Qed.

Definition model_pheader (Tp : list (Z * string)) (g : phdr) : pheader :=
  mk_pheader (dec_enum Tp (p_type g)) (p_offset g) (p_vaddr g) (p_filesz g) (p_memsz g).
Definition model_sheader (Ts : list (Z * string)) (s : shdr) (addralign : Z) : sheader :=
  mk_sheader (dec_enum Ts (sh_type s)) (sh_flags s) (sh_addr s) (sh_offset s) (sh_size s) addralign.

Theorem section_in_segment_strict_exact : forall Tp Ts (s : shdr) (g : phdr) addralign,
  p_type_table_ok Tp = true -> sh_type_table_ok Ts = true ->
  sis_domain s g = true ->
  section_in_segment (model_pheader Tp g) (model_sheader Ts s addralign)
  = section_in_segment_strict s g.
Proof.
  intros Tp Ts [sht shf saddr soff ssz] [pt pfl poff pva ppa pfs pms pal] addralign HTp HTs Hdom.
  unfold sis_domain, headers_u64, extents_no_wrap in Hdom. cbn [C02Spec.sh_type C02Spec.sh_flags
    C02Spec.sh_addr C02Spec.sh_offset C02Spec.sh_size p_type p_offset p_vaddr p_filesz p_memsz] in Hdom.
  rewrite !andb_true_iff in Hdom.
  destruct Hdom as [[[[[[[[[[[U1 U2] U3] U4] U5] U6] U7] U8] U9] U10] [W1 W2]] Htb].
  apply u64_iff in U1, U2, U3, U4, U5, U6, U7, U8, U9, U10.
  apply Z.ltb_lt in W1, W2. apply negb_true_iff in Htb.
  unfold p_type_table_ok in HTp. rewrite !andb_true_iff in HTp.
  destruct HTp as [[[[[[[[K1 K2] K3] K4] K5] K6] K7] K8] K9].
  unfold section_in_segment_strict, section_in_segment_1, section_size. rewrite Htb.
  cbn [negb orb].
  unfold section_in_segment, model_pheader, model_sheader.
  cbn [g_type g_offset g_vaddr g_filesz g_memsz h_type h_flags h_addr h_offset h_size
       C02Spec.sh_type C02Spec.sh_flags C02Spec.sh_addr C02Spec.sh_offset C02Spec.sh_size
       p_type p_offset p_vaddr p_filesz p_memsz].
  rewrite (is_name_dec Tp "PT_LOAD" PT_LOAD), (is_name_dec Tp "PT_DYNAMIC" PT_DYNAMIC), (is_name_dec Tp "PT_NOTE" PT_NOTE),
          (is_name_dec Tp "PT_PHDR" PT_PHDR), (is_name_dec Tp "PT_TLS" PT_TLS), (is_name_dec Tp "PT_GNU_EH_FRAME" PT_GNU_EH_FRAME),
          (is_name_dec Tp "PT_GNU_STACK" PT_GNU_STACK), (is_name_dec Tp "PT_GNU_RELRO" PT_GNU_RELRO) by assumption.
  rewrite (raw_between_dec Tp PT_GNU_SFRAME_raw PT_GNU_MBIND_HI_raw) by exact K9.
  rewrite (is_name_dec Ts "SHT_NOBITS" SHT_NOBITS) by exact HTs.
  rewrite sframe_mbind.
  unfold has_flag. change F_TLS with SHF_TLS. change F_ALLOC with SHF_ALLOC.
  (* geometry: bring the macro's modular expressions to the model's plain ones *)
  rewrite (extent_cond soff poff ssz pfs) by lia.
  rewrite (extent_cond saddr pva ssz pms) by lia.
  rewrite (inside_cond soff poff pfs) by lia.
  rewrite (inside_cond saddr pva pms) by lia.
  (* what remains is propositional *)
  generalize (pt =? PT_TLS) (pt =? PT_GNU_RELRO) (pt =? PT_LOAD) (pt =? PT_PHDR) (pt =? PT_DYNAMIC)
             (pt =? PT_GNU_EH_FRAME) (pt =? PT_GNU_STACK) (pt =? PT_NOTE)
             ((pt =? PT_GNU_SFRAME) || ((PT_GNU_MBIND_LO <=? pt) && (pt <=? PT_GNU_MBIND_HI))).
  intros tTLS tRELRO tLOAD tPHDR tDYN tEH tSTACK tNOTE tSFM.
  generalize (Z.land shf SHF_TLS =? 0) (Z.land shf SHF_ALLOC =? 0) (sht =? SHT_NOBITS)
             (ssz =? 0) (pms =? 0).
  intros fTLS fALLOC nobits size0 memsz0.
  generalize ((poff <=? soff) && (soff - poff + ssz <=? pfs) && ((pfs =? 0) || (soff - poff <=? pfs - 1)))
             ((pva <=? saddr) && (saddr - pva + ssz <=? pms) && ((pms =? 0) || (saddr - pva <=? pms - 1)))
             ((poff <? soff) && (soff - poff <? pfs)) ((pva <? saddr) && (saddr - pva <? pms)).
  intros G1 G2 E1 E2. Show.
  destruct tTLS, tRELRO, tLOAD, tPHDR, fTLS; cbn [andb orb negb];
    destruct tDYN, tNOTE, fALLOC; cbn [andb orb negb];
    destruct tEH, tSTACK, tSFM; cbn [andb orb negb]; btauto.
Qed.

(* the pairs binutils treats specially (.tbss outside PT_TLS) and the wrapping extents are
   exactly what the theorem leaves out; for the second the restriction is necessary: *)
Theorem section_in_segment_wrap_refuted : exists Tp Ts s g addralign,
  p_type_table_ok Tp = true /\ sh_type_table_ok Ts = true /\
  headers_u64 s g = true /\ tbss_special s g = false /\ extents_no_wrap s = false /\
  section_in_segment (model_pheader Tp g) (model_sheader Ts s addralign) = false /\
  section_in_segment_strict s g = true.
Proof.
  exists (enum_table "E006_p_type"), (enum_table "E007_sh_type").
  (* a PROGBITS section at file offset 0x10 of size 2^64 - 0x10 against a PT_NULL-like segment
     (type 0x12345) at offset 0 of size 0x20: 0x10 + (2^64 - 0x10) wraps to 0 <= 0x20 *)
  exists (mk_shdr 1 0 0 0x10 (2 ^ 64 - 0x10)), (mk_phdr 0x12345 4 0 0 0 0x20 0x20 1), 1.
  vm_compute. repeat split; reflexivity.
Qed.
